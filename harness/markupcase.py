"""C14 machinery: generator of machine descriptions, builder on the real classes, the expected view
(the generating description kept up to date under modifications), the property oracle, object-state
extraction and the protocol encoders for the Lean model (Model/Markup.lean).

A *description* is a JSON-able dict:

  hier            bool                      HierarchicalMarkupMachine / MarkupMachine (subclasses in markup_models)
  opts            queued, send_event, auto_transitions, ignore_invalid_triggers (None/False/True),
                  model_attribute, name
  machine_cbs     prepare_event, before_state_change, after_state_change, finalize_event, on_exception, on_final
  states          tree: name, form ('str'|'dict'|'obj'), on_enter, on_exit, on_final, ignore ('unset'|None|False|True),
                  final, initial (None|name|[names]), children, transitions (local, relative names)
  initial         top-level state name
  transitions     trigger, source (name | [names] | '*'), dest (name | None | '='), conditions, unless, prepare, before, after
  truth           callback name -> bool (condition outcomes)
  models          [{'cls': 'A'|'B'|'self', 'initial': None|state name}]
  mods            modifications, see `apply_mod`
  history         [[model index, trigger name], ...]
"""
import copy
import json
import pickle

from . import common, markup_models as mm
from .common import MachineryError

from transitions import State
from transitions.extensions.nesting import NestedState
from transitions.extensions.markup import MarkupMachine

SEP = NestedState.separator
MACHINE_LISTS = ['prepare_event', 'before_state_change', 'after_state_change', 'finalize_event', 'on_exception',
                 'on_final']
ST_CODES = {'on_exit': 0, 'on_enter': 1, 'ignore_invalid_triggers': 2, 'final': 3, 'on_final': 4}
TR_CODES = {'source': 0, 'dest': 1, 'prepare': 2, 'before': 3, 'after': 4}

# No open finding for C14: every failure is reported without a signature (a return of one of the defects
# fixed in /repo — known_findings.json, status fixed — is a VIOLATION).

# ---------------------------------------------------------------------------------------------
# generator
# ---------------------------------------------------------------------------------------------

# machine names: ordinary ones, caption-like ones ending in ':' / ' ' (core stores name + ': ' and the export has to
# take exactly that suffix off again), leading separators, inner colons, the empty name, non-ASCII
NAMES = ['mach', 'mach', 'Stage 2:', 'Plant A: ', 'x ', ' lead', ':pre', 'a:b', '', 'M\u00fcller \u2713', '::', ' ',
         'door: open :', 'tab\t']


class _G(object):
    def __init__(self, rng):
        self.rng = rng
        self.n = 0
        self.loc = 0

    def cb(self):
        self.n += 1
        return 'cb%d' % self.n

    def cbs(self, p=0.4, mx=2):
        if self.rng.random() > p:
            return []
        return [self.cb() for _ in range(self.rng.randint(1, mx))]


def _gen_state(g, name, hier, depth, knobs):
    rng = g.rng
    s = {'name': name, 'on_enter': g.cbs(), 'on_exit': g.cbs(), 'on_final': g.cbs(0.3) if hier else [],
         'ignore': rng.choice(['unset'] * 5 + [None, False, True]) if knobs.get('flags', True) else 'unset',
         'final': False, 'initial': None, 'children': [], 'transitions': []}
    if hier and depth < 2 and rng.random() < (0.5 if depth == 0 else 0.3):
        kids = rng.sample(['1', '2', '3'] if depth == 0 else ['x', 'y', 'z'], rng.randint(1, 3))
        s['children'] = [_gen_state(g, k, hier, depth + 1, knobs) for k in kids]
        r = rng.random()
        if r < 0.12 and len(kids) > 1:
            s['initial'] = list(kids)
        elif r < 0.8:
            s['initial'] = rng.choice(kids)
        for _ in range(rng.choice([0, 0, 1, 2])):
            g.loc += 1
            s['transitions'].append({
                'trigger': 'loc%d' % rng.randint(0, 2), 'source': rng.choice(kids),
                'dest': None if rng.random() < knobs.get('p_internal', 0.1) else rng.choice(kids),
                'conditions': g.cbs(0.3), 'unless': g.cbs(0.2), 'prepare': g.cbs(0.2), 'before': g.cbs(0.3),
                'after': g.cbs(0.3)})
    else:
        s['final'] = rng.random() < 0.2
    complex_ = bool(s['on_enter'] or s['on_exit'] or s['on_final'] or s['ignore'] != 'unset' or s['final']
                    or s['children'])
    if s['children']:
        s['form'] = 'dict'
    elif complex_:
        s['form'] = rng.choice(['dict', 'dict', 'obj'])
    else:
        s['form'] = rng.choice(['str', 'str', 'dict', 'obj'])
    return s


def all_names(states, prefix=''):
    out = []
    for s in states:
        n = prefix + s['name']
        out.append(n)
        out += all_names(s['children'], n + SEP)
    return out


def gen_case(rng, hier, knobs=None):
    knobs = knobs or {}
    g = _G(rng)
    opts = {'queued': rng.random() < 0.3, 'send_event': rng.random() < 0.3,
            'auto_transitions': rng.random() < 0.5,
            'ignore_invalid_triggers': rng.choice([None, None, False, True, True]) if knobs.get('flags', True) else None,
            'model_attribute': 'mode' if rng.random() < knobs.get('p_attr', 0.12) else 'state',
            'name': rng.choice(NAMES) if rng.random() < 0.4 else None}
    machine_cbs = {k: g.cbs(0.6) for k in MACHINE_LISTS}
    tops = rng.sample(['A', 'B', 'C', 'D'], rng.randint(2, 4))
    # states defined through an Enum (plain, IntEnum with a 0 member, str mix-in with values != names, StrEnum):
    # leaf states only; members in state definitions, initial, add_model and half of the transition references
    enum = rng.choice(['plain', 'int', 'strmix', 'strenum']) if rng.random() < knobs.get('p_enum', 0.15) else None
    depth0 = 2 if enum else 0
    states = [_gen_state(g, n, hier, depth0, knobs) for n in tops]
    names = all_names(states)
    transitions = []
    for _ in range(rng.randint(1, 5)):
        r = rng.random()
        if r < 0.1:
            src = '*'
        elif r < 0.2 and len(names) > 1:
            src = rng.sample(names, 2)
        else:
            src = rng.choice(names)
        r = rng.random()
        if r < knobs.get('p_internal', 0.12):
            dst = None
        elif r < 0.22:
            dst = '='
        else:
            dst = rng.choice(names)
        transitions.append({'trigger': 'go%d' % rng.randint(0, 3), 'source': src, 'dest': dst,
                            'conditions': g.cbs(0.4), 'unless': g.cbs(0.3), 'prepare': g.cbs(0.3),
                            'before': g.cbs(0.3), 'after': g.cbs(0.3)})
    if not opts['auto_transitions'] and rng.random() < knobs.get('p_to_named', 0.3):
        # a user-defined trigger that merely *looks* like an automatic one (to_<state> / to_<attr>_<state>) and starts
        # in one state only: not automatic (criterion "one source per state" fails), so it has to be exported, and the
        # export must leave it alone
        tgt = rng.choice(names)
        name = ('to_%s_%s' % (opts['model_attribute'], tgt)) if (opts['model_attribute'] != 'state' and not hier) \
            else 'to_%s' % tgt
        transitions.append({'trigger': name, 'source': rng.choice(names), 'dest': rng.choice([tgt, tgt, rng.choice(names)]),
                            'conditions': g.cbs(0.3), 'unless': g.cbs(0.2), 'prepare': g.cbs(0.3),
                            'before': g.cbs(0.3), 'after': g.cbs(0.3)})
    truth = {}
    for t in transitions + [t for s in _walk(states) for t in s['transitions']]:
        for c in t['conditions']:
            truth[c] = rng.random() < 0.75
        for c in t['unless']:
            truth[c] = rng.random() < 0.25
    models = []
    for i in range(rng.randint(1, 3)):
        cls = rng.choice(['A', 'A', 'B'])
        if i == 0 and rng.random() < 0.15:
            cls = 'self'
        models.append({'cls': cls, 'initial': rng.choice(names) if (i > 0 and rng.random() < 0.4) else None})
    models.sort(key=lambda md: md['initial'] is not None)     # constructor models first: machine.models order
    graph = rng.random() < knobs.get('p_graph', 0.25)
    if enum and hier:
        # HierarchicalGraphMachine + Enum states: the diagram code resolves the model's Enum state relative to the
        # scope add_states happens to be in ("Could not find path of …") — diagram business (C16), not the markup's
        graph = False
    desc = {'hier': hier, 'enum': enum, 'script': {}, 'graph': graph, 'opts': opts, 'machine_cbs': machine_cbs, 'states': states, 'initial': rng.choice(tops),
            'transitions': transitions, 'truth': truth, 'models': models, 'mods': [], 'history': []}
    # later modifications
    pool = list(names)
    trig = sorted(set(t['trigger'] for t in transitions))
    for _ in range(rng.choice([0, 1, 2, 3, 4, 5])):
        kind = rng.choice(['add_state', 'add_transition', 'add_transition', 'remove_transition', 'state_cb', 'state_cb',
                           'trans_cb', 'trigger', 'trigger'] + (['helper_cb'] if hier and knobs.get('helper', True) else []))
        if kind == 'add_state':
            free = [n for n in ['E', 'F', 'G', 'H'] if n not in pool]
            if not free:
                continue
            sts = [_gen_state(g, n, hier, 2 if enum else 1, knobs)       # depth 1: at most one more level
                   for n in free[:rng.choice([1, 1, 2, 3])]]
            pool += all_names(sts)
            desc['mods'].append(['add_state', sts[0]] if len(sts) == 1 and rng.random() < 0.5 else ['add_states', sts])
        elif kind == 'add_transition':
            t = {'trigger': rng.choice([x for x in trig if not x.startswith('to_')] + ['new%d' % rng.randint(0, 1)]),
                 'source': rng.choice(pool) if rng.random() < 0.85 else '*',
                 'dest': None if rng.random() < knobs.get('p_internal', 0.1) else rng.choice(pool),
                 'conditions': g.cbs(0.3), 'unless': g.cbs(0.2), 'prepare': g.cbs(0.2), 'before': g.cbs(0.3),
                 'after': g.cbs(0.3)}
            for c in t['conditions']:
                truth[c] = rng.random() < 0.75
            for c in t['unless']:
                truth[c] = rng.random() < 0.25
            if t['trigger'] not in trig:
                trig.append(t['trigger'])
            desc['mods'].append(['add_transition', t])
        elif kind == 'remove_transition' and trig:
            local = [(t['trigger'], p) for s, p in _walk_paths(states) for t in s['transitions']]
            if local and rng.random() < 0.5:
                # a trigger declared only locally inside a nested state (loc<N> names never occur at machine level),
                # removed wholesale or by the global name of its source
                t, path = rng.choice(local)
                src = [tt['source'] for s, p in _walk_paths(states) if p == path for tt in s['transitions'] if tt['trigger'] == t]
                desc['mods'].append(['remove_transition', t, rng.choice(['*', path + SEP + src[0]]), '*'])
            else:
                desc['mods'].append(['remove_transition', rng.choice(trig), rng.choice(['*', '*'] + pool),
                                     rng.choice(['*', '*', '*'] + pool)])
        elif kind == 'state_cb':
            slot = rng.choice(['on_enter', 'on_exit'] + (['on_final'] if hier else []))
            desc['mods'].append(['state_cb', slot, rng.choice(pool), g.cb()])
        elif kind == 'helper_cb':
            desc['mods'].append(['helper_cb', rng.choice(['on_enter', 'on_exit']), rng.choice(pool), g.cb()])
        elif kind == 'trans_cb' and trig:
            desc['mods'].append(['trans_cb', rng.choice(['before', 'after', 'prepare']), rng.choice(trig), g.cb()])
        elif kind == 'trigger':
            desc['mods'].append(['trigger', rng.randrange(len(models)), _rand_trigger(rng, desc, pool, trig)])
    # walk the models somewhere, then the history run on original and rebuilt machine
    for _ in range(rng.randint(0, 4)):
        desc['mods'].append(['trigger', rng.randrange(len(models)), _rand_trigger(rng, desc, pool, trig)])
    _gen_script(g, desc, pool, trig, knobs)
    # read-only observers and pickle / deepcopy restores, interleaved anywhere (incl. at the very end, where
    # no later dirty-setting call can repair the cached markup)
    extra = []
    if desc['graph']:
        for _ in range(rng.randint(1, 3)):
            extra.append(['observe', rng.choice(['graph', 'roi', 'roi', 'title', 'combined', 'force']),
                          rng.randrange(len(models)), None])
    if rng.random() < knobs.get('p_observe', 0.4):
        extra.append(['observe', rng.choice(['markup', 'config', 'transitions', 'may']), rng.randrange(len(models)),
                      _rand_trigger(rng, desc, pool, trig)])
    if rng.random() < knobs.get('p_clone', 0.3):
        extra.append(['clone', rng.choice(['pickle', 'deepcopy'])])
    for m in extra:
        desc['mods'].insert(rng.randint(0, len(desc['mods'])), m)
    for _ in range(rng.randint(6, 14)):
        desc['history'].append([rng.randrange(len(models)), _rand_trigger(rng, desc, pool, trig)])
    return desc


def _gen_script(g, desc, pool, trig, knobs):
    """callback program: reads of machine.markup and dirty-setting modifications issued from INSIDE callbacks —
    on_enter/on_exit of (preferably nested) states, callbacks of locally declared and of machine-level transitions —
    plus a trigger that reaches the state concerned and model moves that make the callbacks run"""
    rng = g.rng
    if rng.random() > knobs.get('p_script', 0.35 if desc['hier'] else 0.15):
        return
    sites = []       # (callback list, state path or None)
    for s, path in _walk_paths(desc['states']):
        nested = SEP in path
        for slot in ('on_enter', 'on_exit'):
            sites += [(s[slot], path, s)] * (3 if nested else 1)
        for t in s['transitions']:
            for slot in ('prepare', 'before', 'after'):
                sites.append((t[slot], None, None))
    for t in desc['transitions']:
        sites.append((t[rng.choice(['prepare', 'before', 'after'])], None, None))
    truth = desc['truth']
    fresh = ['P', 'Q']
    # callbacks reached through a *locally declared* transition run while the machine is scoped into the declaring
    # state, where add_transition/add_states/… act on that scope (nesting semantics, not the export's): with local
    # transitions around, the program only reads
    later = [st for m in desc['mods'] if m[0] in ('add_state', 'add_states') for st in ([m[1]] if m[0] == 'add_state' else m[1])]
    reads_only = any(s['transitions'] for s in _walk(desc['states'] + later))
    for _ in range(rng.randint(1, 3)):
        lst, path, st = rng.choice(sites)
        if not lst:
            lst.append(g.cb())
            if st is not None and st['form'] == 'str':
                st['form'] = 'dict'      # a bare name cannot carry callbacks
        name = rng.choice(lst)
        cmds = desc['script'].setdefault(name, [])
        r = rng.random()
        if r < 0.45 or reads_only:
            cmds.append(['read'])
        elif r < 0.65:
            base = all_names(desc['states'])
            cmds.append(['add_transition', {'trigger': 'late%d' % rng.randint(0, 1), 'source': rng.choice(base),
                                            'dest': rng.choice(base), 'conditions': [], 'unless': [], 'prepare': [],
                                            'before': g.cbs(0.4), 'after': []}])
        elif r < 0.8 and fresh and not (desc['hier'] and desc['opts']['auto_transitions']):
            # (HierarchicalMachine.add_states from inside a nested state's enter/exit callback with auto_transitions
            # on raises half way — get_global_name reads NestedState.name while _scope is set: nesting.py's business)
            cmds.append(['add_state', _gen_state(g, fresh.pop(0), desc['hier'], 2 if desc.get('enum') else 1, knobs)])
        elif r < 0.9:
            cmds.append(['state_cb', rng.choice(['on_enter', 'on_exit']), rng.choice(pool), g.cb()])
        elif trig:
            cmds.append(['trans_cb', rng.choice(['before', 'after']), rng.choice(trig), g.cb()])
        else:
            cmds.append(['read'])
        if path is not None:
            # make the state reachable and visit it
            desc['transitions'].append({'trigger': 'visit', 'source': '*', 'dest': path, 'conditions': [], 'unless': [],
                                        'prepare': [], 'before': [], 'after': []})
            if 'visit' not in trig:
                trig.append('visit')
            for _i in range(2):
                desc['mods'].insert(rng.randint(0, len(desc['mods'])), ['trigger', rng.randrange(len(desc['models'])), 'visit'])
    for _ in range(rng.randint(2, 5)):
        desc['mods'].insert(rng.randint(0, len(desc['mods'])),
                            ['trigger', rng.randrange(len(desc['models'])), _rand_trigger(rng, desc, pool, trig)])
    del truth


def _walk_paths(states, prefix=''):
    for s in states:
        p = prefix + s['name']
        yield s, p
        for x in _walk_paths(s['children'], p + SEP):
            yield x


def _walk(states):
    for s in states:
        yield s
        for c in _walk(s['children']):
            yield c


def auto_name(desc, state):
    if desc['opts']['model_attribute'] != 'state' and not desc['hier']:
        return 'to_%s_%s' % (desc['opts']['model_attribute'], state)
    return 'to_%s' % state


def _rand_trigger(rng, desc, pool, trig):
    r = rng.random()
    loc = sorted(set(t['trigger'] for s in _walk(desc['states']) for t in s['transitions']))
    if r < 0.5 and trig:
        return rng.choice(trig)
    if r < 0.65 and loc:
        return rng.choice(loc)
    if r < 0.95 and desc['opts']['auto_transitions']:
        return auto_name(desc, rng.choice(pool))
    if r < 0.97:
        return 'nope'
    return rng.choice(trig) if trig else 'nope'


# ---------------------------------------------------------------------------------------------
# realisation on the real classes
# ---------------------------------------------------------------------------------------------

def _arg(lst):
    """a callback list as constructor argument: single names are passed bare every other time"""
    if len(lst) == 1 and (sum(map(ord, lst[0])) % 2):
        return lst[0]
    return list(lst)


def _member(enum, name, always=True):
    """a state reference as the description's Enum flavour spells it (member; in transitions every other reference
    stays a plain name, which the library resolves lazily)"""
    if enum is None or not isinstance(name, str) or name in ('*', '='):
        return name
    if not always and sum(map(ord, name)) % 2:
        return name
    return mm.ENUMS[enum][name]


def realise_state(s, hier, enum=None):
    if s['form'] == 'str':
        return _member(enum, s['name'])
    kw = {}
    if s['on_enter']:
        kw['on_enter'] = _arg(s['on_enter'])
    if s['on_exit']:
        kw['on_exit'] = _arg(s['on_exit'])
    if s['ignore'] != 'unset':
        kw['ignore_invalid_triggers'] = s['ignore']
    if s['final']:
        kw['final'] = True
    if hier:
        if s['on_final']:
            kw['on_final'] = _arg(s['on_final'])
        if s['initial'] is not None:
            kw['initial'] = copy.deepcopy(s['initial'])
    if s['form'] == 'obj':
        return (NestedState if hier else State)(_member(enum, s['name']), **kw)
    d = dict(name=_member(enum, s['name']), **kw)
    if s['children']:
        d['children'] = [realise_state(c, hier) for c in s['children']]
    if s['transitions']:
        d['transitions'] = [realise_trans(t) for t in s['transitions']]
    return d


def realise_trans(t, enum=None):
    src = t['source']
    src = [_member(enum, x, False) for x in src] if isinstance(src, list) else _member(enum, src, False)
    d = {'trigger': t['trigger'], 'source': src, 'dest': _member(enum, t['dest'], t['trigger'] < 'go2')}
    for k in ('conditions', 'unless', 'prepare', 'before', 'after'):
        if t[k]:
            d[k] = _arg(t[k])
    return d


def machine_cls(hier, graph=False):
    if graph:
        return mm.HierGM if hier else mm.FlatGM
    return mm.HierMM if hier else mm.FlatMM


def build(desc):
    """construct the machine of the description (constructor part only); returns the machine"""
    hier = desc['hier']
    graph = desc.get('graph', False)
    cls = machine_cls(hier, graph)
    ctor_models, later = [], []
    for md in desc['models']:
        obj = cls.self_literal if md['cls'] == 'self' else mm.MODEL_CLASSES[md['cls']]()
        if md['initial'] is None:
            ctor_models.append(obj)
        else:
            later.append((obj, md['initial']))
    o = desc['opts']
    enum = desc.get('enum')
    kw = {k: _arg(v) for k, v in desc['machine_cbs'].items() if v}
    if graph:
        kw['graph_engine'] = 'mermaid'
    m = cls(model=ctor_models, states=[realise_state(s, hier, enum) for s in desc['states']],
            initial=_member(enum, desc['initial']),
            transitions=[realise_trans(t, enum) for t in desc['transitions']], queued=o['queued'],
            send_event=o['send_event'], auto_transitions=o['auto_transitions'],
            ignore_invalid_triggers=o['ignore_invalid_triggers'], model_attribute=o['model_attribute'],
            name=o['name'], **kw)
    for obj, ini in later:
        m.add_model(obj, initial=_member(enum, ini))
    m._c14_enum = enum
    return m


def fire(machine, midx, name, log=None, ctx=None):
    """one trigger on one model; returns a JSON-able outcome.  `ctx`: callback program (reads / modifications
    issued from inside callbacks), None while histories are replayed"""
    model = machine.models[midx]
    mm.RECORDER['log'] = log
    mm.RECORDER['machine'] = machine
    mm.RECORDER['ctx'] = ctx
    try:
        try:
            res = model.trigger(name)
            out = ['ret', bool(res)]
        except Exception as e:      # MachineError, AttributeError (unknown trigger), ValueError …
            out = ['raised', type(e).__name__]
    finally:
        mm.RECORDER['log'] = None
        mm.RECORDER['ctx'] = None
    return out


class Ctx(object):
    """the callback program of a case: `script` maps a callback name to commands it issues when it runs —
    ['read'] (read machine.markup, at most three times per callback) or a dirty-setting modification (once),
    each followed by a read.  `on_cmd(machine, key, cmd)` is supplied by the check."""

    def __init__(self, script, on_cmd):
        self.script = script
        self.on_cmd = on_cmd
        self.count = {}
        self.busy = False

    def invoke(self, name):
        cmds = self.script.get(name)
        if not cmds or self.busy:
            return
        n = self.count[name] = self.count.get(name, 0) + 1
        self.busy = True      # commands issued from a callback do not themselves run callbacks programs
        try:
            for i, cmd in enumerate(cmds):
                if (cmd[0] == 'read' and n <= 3) or (cmd[0] != 'read' and n == 1):
                    self.on_cmd(mm.RECORDER['machine'], (name, i), cmd)
        finally:
            self.busy = False


def apply_mod(machine, mod, ctx=None):
    k = mod[0]
    hier = issubclass(machine.state_cls, NestedState)
    enum = getattr(machine, '_c14_enum', None)
    if k == 'add_state':
        machine.add_states(realise_state(mod[1], hier, enum))
    elif k == 'add_states':      # one call with a list mixing compound and plain definitions
        machine.add_states([realise_state(st, hier, enum) for st in mod[1]])
    elif k == 'add_transition':
        machine.add_transition(**realise_trans(mod[1], enum))
    elif k == 'remove_transition':
        machine.remove_transition(mod[1], source=mod[2], dest=mod[3])
    elif k == 'state_cb':
        getattr(machine, '%s_%s' % (mod[1], mod[2]))(mod[3])
    elif k == 'helper_cb':
        getattr(machine, mod[1])(mod[2], mod[3])
    elif k == 'trans_cb':
        getattr(machine, '%s_%s' % (mod[1], mod[2]))(mod[3])
    elif k == 'trigger':
        fire(machine, mod[1], mod[2], ctx=ctx)
    elif k == 'observe':
        observe(machine, mod[1], mod[2], mod[3])
    elif k == 'clone':
        # both go through __getstate__/__setstate__; the clone replaces the machine from here on
        return pickle.loads(pickle.dumps(machine)) if mod[1] == 'pickle' else copy.deepcopy(machine)
    else:
        raise MachineryError('unknown modification %r' % (mod,))
    return machine


def observe(machine, kind, midx, name):
    """read-only API calls: nothing about the machine may change, its markup least of all"""
    model = machine.models[midx]
    mm.RECORDER['log'] = None
    if kind == 'graph':
        model.get_graph()
    elif kind == 'roi':
        model.get_graph(show_roi=True)
    elif kind == 'title':
        model.get_graph(title='another title')
    elif kind == 'combined':
        machine.get_combined_graph(show_roi=(midx % 2 == 1))
    elif kind == 'force':
        model.get_graph(force_new=True)
    elif kind == 'markup':
        json.dumps(machine.markup)
    elif kind == 'config':
        machine.get_markup_config()
    elif kind == 'transitions':
        machine.get_transitions()
    elif kind == 'may':
        try:
            model.may_trigger(name)
        except Exception:      # unknown trigger names etc.: C12's business
            pass
    else:
        raise MachineryError('unknown observer %r' % kind)


# ---------------------------------------------------------------------------------------------
# the expected view: the generating description, kept current by the harness's own bookkeeping
# ---------------------------------------------------------------------------------------------

class Expect(object):
    """What the description says the machine consists of.  States: tree of dicts with the stored flag
    (`flag`: the value the State object holds).  Transitions: per scope ('' = machine) an ordered list
    of concrete entries."""

    def __init__(self, desc):
        self.desc = desc
        self.hier = desc['hier']
        self.mflag = desc['opts']['ignore_invalid_triggers']
        self.states = [self._state(s) for s in desc['states']]
        self.trans = {'': []}
        for s, path in self.walk():
            self._locals(s, path)
        for t in desc['transitions']:
            self.add_transition(t)

    def _state(self, s):
        if s['ignore'] != 'unset':
            flag = s['ignore']
        elif s['form'] == 'obj':
            flag = None
        else:
            flag = self.mflag
        e = {'name': s['name'], 'on_enter': list(s['on_enter']), 'on_exit': list(s['on_exit']),
             'on_final': list(s['on_final']), 'final': bool(s['final']), 'flag': flag,
             'initial': copy.deepcopy(s['initial']), 'children': [self._state(c) for c in s['children']],
             '_local': [dict(t) for t in s['transitions']]}
        return e

    def _locals(self, s, path):
        loc = s.pop('_local', [])
        if s['children']:
            self.trans.setdefault(path, [])
        for t in loc:
            for src in [t['source']]:
                self.trans[path].append(self._entry(t, src, t['dest']))

    def walk(self, states=None, prefix=''):
        for s in (self.states if states is None else states):
            p = prefix + s['name']
            yield s, p
            for x in self.walk(s['children'], p + SEP):
                yield x

    def find(self, path):
        for s, p in self.walk():
            if p == path:
                return s
        return None

    @staticmethod
    def _entry(t, src, dst):
        return {'trigger': t['trigger'], 'source': src, 'dest': dst, 'conditions': list(t['conditions']),
                'unless': list(t['unless']), 'prepare': list(t['prepare']), 'before': list(t['before']),
                'after': list(t['after'])}

    def add_transition(self, t):
        src = t['source']
        if src == '*':
            if t['dest'] == '=' and self.hier:
                srcs = [p for _s, p in self.walk()]
            else:
                srcs = [s['name'] for s in self.states]
        elif isinstance(src, list):
            srcs = list(src)
        else:
            srcs = [src]
        # Transition.__init__ keeps a list argument as it is (listify), so the transitions expanded from one
        # definition with several sources share their prepare/before/after list objects: a callback registered
        # later through before_<trigger>() shows up once per sharing transition.  That is core behaviour
        # (C13's business); the expected view mirrors it so that the markup is judged against the machine.
        shared = {k: list(t[k]) for k in ('prepare', 'before', 'after') if t[k] and isinstance(_arg(t[k]), list)}
        for s in srcs:
            e = self._entry(t, s, s if t['dest'] == '=' else t['dest'])
            e.update(shared)
            self.trans[''].append(e)

    def add_state(self, s):
        e = self._state(s)
        self.states.append(e)
        for st, path in self.walk([e]):
            self._locals(st, path)

    def remove_transition(self, trigger, source, dest):
        def keep(scope, e):
            if e['trigger'] != trigger:
                return True
            gsrc = (scope + SEP + e['source']) if scope else e['source']
            gdst = ((scope + SEP + e['dest']) if scope else e['dest']) if e['dest'] is not None else None
            return (source != '*' and gsrc != source) or (dest != '*' and gdst != dest)
        for scope in self.trans:
            self.trans[scope] = [e for e in self.trans[scope] if keep(scope, e)]

    def apply(self, mod):
        k = mod[0]
        if k == 'add_state':
            self.add_state(mod[1])
        elif k == 'add_states':
            for st in mod[1]:
                self.add_state(st)
        elif k == 'add_transition':
            self.add_transition(mod[1])
        elif k == 'remove_transition':
            self.remove_transition(mod[1], mod[2], mod[3])
        elif k in ('state_cb', 'helper_cb'):
            self.find(mod[2])[mod[1]].append(mod[3])
        elif k == 'clone' and mod[1] == 'deepcopy' and self.hier:
            # NestedTransition.__deepcopy__ copies the callback lists shallowly one by one: lists that were shared
            # between the transitions of one definition (see add_transition) are separate objects in the copy
            for es in self.trans.values():
                for e in es:
                    for key in ('prepare', 'before', 'after'):
                        e[key] = list(e[key])
        elif k == 'trans_cb':
            for e in self.trans['']:
                if e['trigger'] == mod[2]:
                    e[mod[1]].append(mod[3])

    def auto_names(self):
        return set(auto_name(self.desc, p) for _s, p in self.walk())

    def has_internal(self):
        return any(e['dest'] is None for es in self.trans.values() for e in es)

    def eff_ignore(self, s):
        return bool(s['flag']) if s['flag'] is not None else bool(self.mflag)


def mod_is_valid(exp, mod):
    """modifications that the library rejects by design are not part of the property (skipped)"""
    k = mod[0]
    if k == 'remove_transition':
        scopes_with = [sc for sc, es in exp.trans.items() if any(e['trigger'] == mod[1] for e in es)]
        # only triggers that (still) exist at machine level, so that flat and nested removal agree with the
        # bookkeeping above; a trigger that vanished raises KeyError/AttributeError in the library
        # … or, on hierarchical machines, only locally inside nested states
        return '' in scopes_with or (exp.hier and bool(scopes_with))
    if k == 'trans_cb':
        return any(e['trigger'] == mod[2] for e in exp.trans[''])
    if k in ('state_cb', 'helper_cb'):
        return exp.find(mod[2]) is not None
    if k == 'observe' and mod[1] in ('graph', 'roi', 'title', 'combined', 'force'):
        return bool(exp.desc.get('graph'))
    return True


# ---------------------------------------------------------------------------------------------
# the oracle: the property stated on the exported dict
# ---------------------------------------------------------------------------------------------

def _lst(d, k):
    v = d.get(k, [])
    return v if isinstance(v, list) else [v]


def check_faithful(exp, mk, machine, stage):
    """markup `mk` (after a JSON round trip) against the expected view; returns [(what, details, signature)]"""
    out = []
    desc = exp.desc

    def bad(what, details, sig=None):
        details = dict(details)
        details['stage'] = stage
        out.append((what, details, sig))

    # machine-level lists under their own keys
    for k in MACHINE_LISTS:
        want = desc['machine_cbs'][k]
        got = mk.get(k)
        if got != want:
            bad('faithful.machine-list', {'key': k, 'expected': want, 'markup': got})
    o = desc['opts']
    for k, want in (('queued', o['queued']), ('send_event', o['send_event']), ('auto_transitions', o['auto_transitions']),
                    ('ignore_invalid_triggers', o['ignore_invalid_triggers']), ('model_attribute', o['model_attribute']),
                    ('model_override', False)):
        if k not in mk or mk[k] != want or type(mk[k]) is not type(want):
            bad('faithful.option', {'key': k, 'expected': want, 'markup': mk.get(k, '<absent>')})
    if mk.get('name') != o['name']:
        bad('faithful.option', {'key': 'name', 'expected': o['name'], 'markup': mk.get('name')})
    if mk.get('initial') != desc['initial']:
        bad('faithful.initial', {'expected': desc['initial'], 'markup': mk.get('initial')})

    # states with nesting, initial substates, flags, callbacks; local transitions per scope
    def states(exp_states, entries, prefix, key):
        if [e.get('name') for e in entries] != [s['name'] for s in exp_states]:
            bad('faithful.states', {'scope': prefix, 'expected': [s['name'] for s in exp_states],
                                    'markup': [e.get('name') for e in entries]})
            return
        for s, e in zip(exp_states, entries):
            path = prefix + s['name']
            for slot in ('on_enter', 'on_exit', 'on_final'):
                if _lst(e, slot) != s[slot]:
                    bad('faithful.state-callbacks', {'state': path, 'slot': slot, 'expected': s[slot],
                                                     'markup': e.get(slot, '<absent>')})
            if bool(e.get('final', False)) != s['final']:
                bad('faithful.state-final', {'state': path, 'expected': s['final'], 'markup': e.get('final', '<absent>')})
            # the entry, read with the machine-level flag exported next to it, must determine the effective flag
            eff_markup = bool(e['ignore_invalid_triggers']) if e.get('ignore_invalid_triggers') is not None \
                else bool(mk.get('ignore_invalid_triggers'))
            if 'ignore_invalid_triggers' in e and e['ignore_invalid_triggers'] is None:
                eff_markup = bool(mk.get('ignore_invalid_triggers'))
            if eff_markup != exp.eff_ignore(s):
                bad('faithful.state-flag', {'state': path, 'state_flag': s['flag'], 'machine_flag': exp.mflag,
                                            'markup': e.get('ignore_invalid_triggers', '<absent>')})
            if s['children']:
                if e.get('initial') != s['initial']:
                    bad('faithful.state-initial', {'state': path, 'expected': s['initial'], 'markup': e.get('initial')})
                states(s['children'], e.get('children', []), path + SEP, 'children')
                transitions(exp.trans.get(path, []), e.get('transitions', []), path)
            elif e.get('children'):
                bad('faithful.states', {'scope': path + SEP, 'expected': [], 'markup': e.get('children')})

    def norm(t):
        return (t.get('trigger'), t.get('source'), t.get('dest'), tuple(_lst(t, 'conditions')), tuple(_lst(t, 'unless')),
                tuple(_lst(t, 'prepare')), tuple(_lst(t, 'before')), tuple(_lst(t, 'after')))

    def transitions(want, got, scope):
        # automatic transitions may be listed; when auto_transitions is off there are none, and a user trigger
        # that is named like one is an ordinary transition
        autos = exp.auto_names() if (not scope and desc['opts']['auto_transitions']) else set()
        want_n = [norm(t) for t in want]
        got_n = [norm(t) for t in got if t.get('trigger') not in autos]      # automatic ones may be listed
        internal_missing_dest = [t for t in got if 'dest' not in t]
        # order matters per (trigger, source): the first transition whose conditions pass wins
        def grouped(lst):
            d = {}
            for t in lst:
                d.setdefault((t[0], t[1]), []).append(t)
            return d
        if grouped(want_n) != grouped(got_n):
            missing = [t for t in want_n if t not in got_n]
            extra = [t for t in got_n if t not in want_n]
            bad('faithful.transitions', {'scope': scope, 'missing': missing[:4], 'unexpected': extra[:4],
                                         'n_expected': len(want_n), 'n_markup': len(got_n)})
        del internal_missing_dest

    states(exp.states, mk.get('states', []), '', 'states')
    transitions(exp.trans[''], mk.get('transitions', []), '')

    # every model's current state
    ms = mk.get('models', [])
    if len(ms) != len(machine.models):
        bad('faithful.models', {'expected': len(machine.models), 'markup': len(ms)})
    else:
        for md, e, obj in zip(desc['models'], ms, machine.models):
            cur = mm.state_repr(getattr(obj, machine.model_attribute))
            cls = 'self' if md['cls'] == 'self' else '%s.%s' % (mm.ModelA.__module__, mm.MODEL_CLASSES[md['cls']].__name__)
            if e.get('state') != cur or e.get('class-name') != cls:
                bad('faithful.models', {'expected_state': cur, 'expected_class': cls, 'markup': e})
            if md['cls'] == 'B' and e.get('name') != mm.ModelB.name:
                bad('faithful.models', {'expected_name': mm.ModelB.name, 'markup': e})
    return out


def strip_ids(mk):
    """model names derived from id(model) differ between any two machines; everything else is compared"""
    mk = json.loads(json.dumps(mk))
    for e in mk.get('models', []):
        n = e.get('name')
        if isinstance(n, str) and n.isdigit() and len(n) > 6:
            e['name'] = '<id>'
    return mk


def diff_paths(a, b, path=''):
    """list of (path, a, b) where two JSON values differ"""
    if type(a) is not type(b):
        return [(path, a, b)]
    if isinstance(a, dict):
        out = []
        for k in sorted(set(a) | set(b)):
            if k not in a or k not in b:
                out.append((path + '/' + k, a.get(k, '<absent>'), b.get(k, '<absent>')))
            else:
                out += diff_paths(a[k], b[k], path + '/' + k)
        return out
    if isinstance(a, list):
        if len(a) != len(b):
            return [(path, a, b)]
        out = []
        for i, (x, y) in enumerate(zip(a, b)):
            out += diff_paths(x, y, '%s[%d]' % (path, i))
        return out
    return [] if a == b else [(path, a, b)]


def run_history(machine, history):
    """drive a machine through the history; JSON-able record of outcomes, callbacks and model states"""
    rec = []
    for midx, name in history:
        log = []
        out = fire(machine, midx, name, log)
        rec.append({'event': [midx, name], 'out': out, 'calls': log,
                    'states': [mm.state_repr(getattr(x, machine.model_attribute)) for x in machine.models]})
    return rec


def check_roundtrip(exp, machine, mk, history, codec=None, twin=None):
    """`Cls(markup=json round trip)`: identical markup, identical reactions.  Returns (failures, info)."""
    out = []
    info = {'rebuilt': False, 'markup_equal': False}
    # rebuilt with the class of the original: the plain markup classes, or the diagram classes derived from them
    graph = bool(exp.desc.get('graph'))
    cls = machine_cls(exp.hier, graph)

    def bad(what, details):
        out.append((what, details, None))

    m2 = None
    try:
        m2 = cls(markup=json.loads(json.dumps(mk)), **({'graph_engine': 'mermaid'} if graph else {}))
    except Exception as e:
        bad('roundtrip.import-raises', {'exception': '%s: %s' % (type(e).__name__, e)})
    if m2 is not None:
        info['rebuilt'] = True
        info['m2'] = m2
        mk2 = json.loads(json.dumps(m2.markup))
        if codec is not None:
            info['pre'] = (codec.cfg(m2), codec.markup(mk2))
        # the rebuilt machine carries the machine-level attributes of the original (name incl. the log prefix form,
        # options, callback lists)
        for attr in ('name', 'send_event', 'auto_transitions', 'ignore_invalid_triggers', 'model_attribute',
                     'model_override', 'has_queue', 'prepare_event', 'before_state_change', 'after_state_change',
                     'finalize_event', 'on_exception', 'on_final'):
            a, b = getattr(machine, attr), getattr(m2, attr)
            if a != b or type(a) is not type(b):
                bad('roundtrip.machine-attribute-differs', {'attribute': attr, 'original': a, 'rebuilt': b})
        d = diff_paths(strip_ids(mk), strip_ids(mk2))
        info['markup_equal'] = not d
        if d:
            bad('roundtrip.markup-differs', {'differences': [[p, a, b] for p, a, b in d[:6]]})
    rec1 = run_history(machine, history)
    info['record'] = rec1
    if twin is not None:
        # exporting (and every other observer) leaves the machine as it is: the original, whose markup was read
        # after construction and after every modification, reacts like its twin that was never looked at
        rec0 = run_history(twin, history)
        if rec0 != rec1:
            k = next(i for i, (a, b) in enumerate(zip(rec0, rec1)) if a != b)
            bad('current.exported-original-differs-from-never-exported-twin',
                {'step': k, 'never_exported_twin': rec0[k], 'original_after_export': rec1[k]})
    if m2 is not None:
        rec2 = run_history(m2, history)
        if rec1 != rec2:
            k = next(i for i, (a, b) in enumerate(zip(rec1, rec2)) if a != b)
            bad('roundtrip.behaviour-differs', {'step': k, 'original': rec1[k], 'rebuilt': rec2[k]})
    return out, info


def _all_trans(mk):
    out = list(mk.get('transitions', []))

    def rec(entries):
        for e in entries:
            out.extend(e.get('transitions', []))
            rec(e.get('children', []))
    rec(mk.get('states', []))
    return out


# ---------------------------------------------------------------------------------------------
# object state extraction and protocol encoding (mirror of Handlers/HC14.lean)
# ---------------------------------------------------------------------------------------------

class Interner(object):
    def __init__(self):
        self.t = {}

    def __call__(self, s):
        if not isinstance(s, str):
            s = json.dumps(s, sort_keys=True)
        if s not in self.t:
            self.t[s] = len(self.t) + 1
        return self.t[s]


def enc_list(items, f):
    out = [len(items)]
    for i in items:
        out += f(i)
    return out


def enc_opt(v, f):
    return [0] if v is None else [1] + f(v)


def enc_tri(v):
    return [0] if v is None else ([2] if v is True else ([1] if v is False else [3]))


class Codec(object):
    def __init__(self, hier, model_attribute):
        self.I = Interner()
        self.hier = hier
        self.attr = model_attribute

    def path(self, s):
        if not isinstance(s, str):
            return [1, self.I(['<non-string>', repr(s)])]
        parts = s.split(SEP) if self.hier else [s]
        return [len(parts)] + [self.I(p) for p in parts]

    def names(self, lst):
        lst = lst if isinstance(lst, (list, tuple)) else [lst]
        return [len(lst)] + [self.I(x if isinstance(x, str) else ['<callable>', repr(x)]) for x in lst]

    def evname(self, s):
        if not self.hier and self.attr != 'state' and s.startswith('to_%s_' % self.attr):
            return [2] + self.path(s[len('to_%s_' % self.attr):])
        if s.startswith('to_'):
            return [1] + self.path(s[3:])
        return [0, self.I(s)]

    # ---- object state (Cfg) ----
    def trans(self, t):
        conds = [[self.I(c.func), 1 if c.target else 0] for c in t.conditions]
        return (self.path(t.source) + enc_opt(t.dest, self.path) + self.names(t.prepare)
                + enc_list(conds, lambda x: x) + self.names(t.before) + self.names(t.after))

    def event(self, ev):
        return self.evname(ev.name) + enc_list(list(ev.transitions.items()),
                                               lambda kv: self.path(kv[0]) + enc_list(kv[1], self.trans))

    def state(self, st):
        ini = getattr(st, 'initial', None)
        return ([self.I(st.name)] + self.names(st.on_enter)
                + self.names(st.on_exit) + self.names(getattr(st, 'on_final', []))
                + enc_tri(st.ignore_invalid_triggers) + [1 if st.final else 0]
                + enc_opt(ini if ini else None, lambda v: [self.I(['v', v])])
                + enc_list(list(getattr(st, 'events', {}).values()), self.event)
                + enc_list(list(getattr(st, 'states', {}).values()), self.state))

    def opts(self, send_event, auto, queued, override, ignore, attr):
        return ([int(bool(send_event)), int(bool(auto)), int(bool(queued)), int(bool(override))] + enc_tri(ignore)
                + ([0] if attr == 'state' else [1, self.I(['attr', attr])]))

    def model(self, cls, name, state):
        idname = isinstance(name, str) and name.isdigit() and len(name) > 6
        return [self.I(['cls', cls])] + enc_opt(None if idname else name, lambda v: [self.I(['n', v])]) \
            + [self.I(['v', state])]

    def cfg(self, m):
        models = []
        for x in m.models:
            st = mm.state_repr(getattr(x, m.model_attribute))
            cls = 'self' if x is m else x.__module__ + '.' + x.__class__.__name__
            name = x.name if hasattr(x, 'name') else None
            models.append(self.model(cls, name, st))
        return ([int(self.hier)] + enc_opt(m.name[:-2] if m.name else None, lambda v: [self.I(['n', v])])
                + enc_opt(m.initial if m.initial else None, lambda v: [self.I(['v', v])])
                + self.names(m.prepare_event) + self.names(m.before_state_change) + self.names(m.after_state_change)
                + self.names(m.finalize_event) + self.names(m.on_exception) + self.names(m.on_final)
                + self.opts(m.send_event, m.auto_transitions, m.has_queue, m.model_override,
                            m.ignore_invalid_triggers, m.model_attribute)
                + enc_list(list(m.states.values()), self.state) + enc_list(list(m.events.values()), self.event)
                + enc_list(models, lambda x: x))

    # ---- markup dict ----
    def mtrans(self, t):
        known = {'trigger', 'source', 'dest', 'prepare', 'before', 'after', 'conditions', 'unless'}
        return (self.evname(t.get('trigger', '')) + enc_opt(t.get('source'), self.path) + enc_opt(t.get('dest'), self.path)
                + self.names(t.get('prepare', [])) + self.names(t.get('before', [])) + self.names(t.get('after', []))
                + self.names(t.get('conditions', [])) + self.names(t.get('unless', []))
                + [len(set(t) - known)])

    def mstate(self, e):
        known = {'name', 'on_enter', 'on_exit', 'on_final', 'ignore_invalid_triggers', 'final', 'initial',
                 'transitions', 'children'}
        ign = [0] if 'ignore_invalid_triggers' not in e else [1] + enc_tri(e['ignore_invalid_triggers'])
        fin = e.get('final', False)
        return ([self.I(e.get('name'))] + self.names(e.get('on_enter', [])) + self.names(e.get('on_exit', []))
                + self.names(e.get('on_final', [])) + ign + [1 if fin is True else (0 if fin is False else 2)]
                + enc_opt(e.get('initial'), lambda v: [self.I(['v', v])])
                + enc_list(e.get('transitions', []), self.mtrans) + enc_list(e.get('children', []), self.mstate)
                + [len(set(e) - known)])

    def markup(self, mk):
        known = set(MACHINE_LISTS) | {'name', 'initial', 'send_event', 'auto_transitions', 'queued', 'model_override',
                                      'ignore_invalid_triggers', 'model_attribute', 'states', 'transitions', 'models'}
        models = [self.model(e.get('class-name'), e.get('name'), e.get('state')) for e in mk.get('models', [])]
        return (enc_opt(mk.get('name'), lambda v: [self.I(['n', v])])
                + enc_opt(mk.get('initial'), lambda v: [self.I(['v', v])])
                + self.names(mk.get('prepare_event', [])) + self.names(mk.get('before_state_change', []))
                + self.names(mk.get('after_state_change', [])) + self.names(mk.get('finalize_event', []))
                + self.names(mk.get('on_exception', [])) + self.names(mk.get('on_final', []))
                + self.opts(mk.get('send_event'), mk.get('auto_transitions'), mk.get('queued'), mk.get('model_override'),
                            mk.get('ignore_invalid_triggers'), mk.get('model_attribute'))
                + enc_list(mk.get('states', []), self.mstate) + enc_list(mk.get('transitions', []), self.mtrans)
                + enc_list(models, lambda x: x) + [len(set(mk) - known)])


def whitelist_codes():
    """the live class attributes, as codes for the model (unknown attribute names get codes >= 5)"""
    def codes(lst, table):
        out, nxt = [], 5
        for a in lst:
            if a in table:
                out.append(table[a])
            else:
                out.append(nxt)
                nxt += 1
        return out
    return codes(MarkupMachine.state_attributes, ST_CODES), codes(MarkupMachine.transition_attributes, TR_CODES)
