"""Shared machinery of the checks on hierarchical machines (C02, C03): streams of generated / enumerated
descriptions, the worker that runs them on the real classes and on the Lean model, the judge, shrinking, replay."""
import copy
import hashlib
import itertools
import json
import random

from . import common, nested, runner, flat
from .common import SLOT
from .runner import Exploration, Failure

OTHER_CLASSES = nested.HSM_CLASSES[1:]


class NStream(object):
    """name; knobs() -> NKnobs (random streams) or enum(idx, nchunks) -> iterable of NDesc (enumerated streams);
    classes: how many of the five other hierarchical classes each case is also run on (rotating)"""

    def __init__(self, name, knobs=None, enum=None, quick=(16, 60), thorough=(64, 400), others=5, tiers=('quick', 'thorough'),
                 enum_states=False, pool=None):
        self.name = name
        self.knobs = knobs
        self.enum = enum
        self.quick = quick
        self.thorough = thorough
        self.others = others
        self.tiers = tiers
        self.pool = list(pool) if pool else list(OTHER_CLASSES)   # the other classes a case is also run on
        self.enum_states = enum_states   # realise the description with Enum states (one Enum class per sibling group)


def fingerprint(d):
    return hashlib.sha1(repr((d.enc_case(), d.models, d.mhist, d.falsy, sorted(d.suspend.items()), d.start, d.mops)).encode()).hexdigest()[:16]


# ---------------------------------------------------------------------------------------------
# observation maps
# ---------------------------------------------------------------------------------------------

def cb_maps(d):
    """first recorder of every state / transition / the machine → what it stands for"""
    enter, exit_, prep, before = {}, {}, {}, {}
    for p, n in d.walk():
        enter[n['on_enter'][0]] = tuple(p)
        exit_[n['on_exit'][0]] = tuple(p)
    for scope, ev, i, t in d.all_trans():
        prep[t['prepare'][0]] = (tuple(scope), ev, i)
        before[t['before'][0]] = (tuple(scope), ev, i)
    return enter, exit_, prep, before


def ghost(d, items):
    """python twin of `C02.project` (used for the class differential and the live-set oracle)"""
    enter, exit_, prep, before = cb_maps(d)
    fin = d.finalize[0] if d.finalize else None
    out = []
    for it in items:
        if it[0] == 'call':
            slot, c = it[1], it[2]
            if slot == SLOT['on_enter'] and c in enter:
                out.append(('enter', enter[c]))
            elif slot == SLOT['on_exit'] and c in exit_:
                out.append(('exit', exit_[c]))
            elif slot == SLOT['prepare'] and c in prep:
                out.append(('cand', prep[c]))
            elif slot == SLOT['before'] and c in before:
                out.append(('exec', before[c]))
            elif slot == SLOT['finalize_event'] and c == fin:
                out.append(('fin', it[4], it[5]))
        elif it[0] == 'api':
            out.append(('api', it[2], it[4]))
        elif it[0] == 'ret':
            out.append(('ret', it[1], it[2]))
        elif it[0] == 'raised':
            out.append(('raised', it[1], it[2], it[3]))
    return out


def expand(v):
    """model.state → set of active states and all their ancestors (tuples of ints)"""
    out = set()
    for name in nested.flatten(v):
        p = nested.parse_name(name)
        for i in range(1, len(p) + 1):
            out.add(tuple(p[:i]))
    return out


def live_oracle(d, run):
    """the property's second sentence, stated directly: after every top-level call whose callbacks did not raise
    the states entered and not exited are the active states and their ancestors, all registered"""
    registered = set(tuple(p) for p, _n in d.walk())
    bad = []
    if not expand(run.states_after[0]) <= registered:
        bad.append(('unregistered', 0, sorted(expand(run.states_after[0]) - registered)))
    # depth tracking: api opens, ret/raised closes
    live = set(expand(run.states_after[0]))
    depth = 0
    k = 0
    for g in ghost(d, run.items):
        if g[0] == 'api':
            depth += 1
        elif g[0] == 'enter':
            live.add(g[1])
        elif g[0] == 'exit':
            live.discard(g[1])
        elif g[0] in ('ret', 'raised'):
            depth -= 1
            if g[0] == 'raised' and g[2] in (3, 4):
                break
            if depth == 0:
                k += 1
                if k < len(run.states_after):
                    want = expand(run.states_after[k])
                    if live != want:
                        bad.append(('live-vs-state', k, sorted(live ^ want)))
                        break
                    if not want <= registered:
                        bad.append(('unregistered', k, sorted(want - registered)))
                        break
    return bad


def _related(a, b):
    n = min(len(a), len(b))
    return a[:n] == b[:n]


def ete_active_kinds(d, run):
    """Sub-classification (harness side) of the monitor clause `entered-then-exited:source-active`: for every exit of a
    state entered earlier in the same event by a transition whose source is active, not exited in this event and not a
    repetition of the same transition (the monitor's class "source-active"):
      kind   'cross-region'    the source is unrelated (ancestor order) to every source that executed earlier in the event
             'related-sources' it is an ancestor / descendant of (or equal to) one of them
      group  '@local' some state active when the event began declares the event in its own definition, else '@global'"""
    src_of = {(tuple(scope), ev, i): tuple(scope + t['source']) for scope, ev, i, t in d.all_trans()}
    local_events = {tuple(p): set(e for e, _ts in n['local']) for p, n in d.walk()}
    live = set(expand(run.states_after[0]))
    pre = set(live)
    kinds = set()
    ev_of = {}
    entered, exited, refs, srcs, found = set(), set(), [], [], set()
    cur = None
    for g in ghost(d, run.items):
        if g[0] == 'api':
            ev_of[g[1]] = g[2]
        elif g[0] == 'exec':
            src = src_of.get(g[1])
            if g[1] in refs:
                cls = 4
            elif src is None:
                cls = 0
            elif src not in live:
                cls = 2
            elif src in exited:
                cls = 3
            else:
                cls = 1
            cur = (cls, src is not None and any(_related(src, x) for x in srcs if x is not None))
            refs.append(g[1])
            srcs.append(src)
        elif g[0] == 'exit':
            if g[1] in entered and (cur is None or cur[0] in (0, 1)):
                found.add('related-sources' if (cur and cur[1]) else 'cross-region')
            live.discard(g[1])
            exited.add(g[1])
        elif g[0] == 'enter':
            live.add(g[1])
            entered.add(g[1])
        elif g[0] == 'fin':
            ev = ev_of.get(g[1])
            group = '@local' if any(ev in local_events.get(p, ()) for p in pre) else '@global'
            kinds |= set(k + group for k in found)
            entered, exited, refs, srcs, found = set(), set(), [], [], set()
            cur = None
            pre = set(live)
        elif g[0] == 'raised' and g[2] in (3, 4):
            break
    return sorted(kinds)


def outline(d, run):
    """what the class differential compares: enter / exit / offers / executes, the outcomes of the calls issued by the
    history (calls made from inside callbacks return at once on a queued machine; where that return lands relative to the
    other callbacks of a gathered list is not constrained), states after each call"""
    top, depth, out = set(), 0, []
    for x in ghost(d, run.items):
        if x[0] == 'api':
            if depth == 0:
                top.add(x[1])
            depth += 1
        elif x[0] in ('ret', 'raised'):
            depth -= 1
            if x[1] in top:
                out.append(x)
        elif x[0] in ('enter', 'exit', 'exec', 'cand'):
            out.append(x)
    return out, run.states_after


# ---------------------------------------------------------------------------------------------
# worker
# ---------------------------------------------------------------------------------------------

_REGISTRY = {}


def register(prop, streams, monitor_kind):
    _REGISTRY[prop] = ({s.name: s for s in streams}, monitor_kind)


def monitor_request(kind, d, run):
    try:
        first = nested.enc_sval(run.states_after[0])
    except Exception:
        first = nested.enc_sval([])     # not a state value (the recorder has noted `odd-state`): the monitor starts from nothing
    return (kind, d.enc_cfg() + first + common.enc_items(run.items))


def judge_case(prop, stream_name, d, model_ans, runs, mon_answers, enum_states=False, full=None, mid=0):
    """runs: {class name: (run, err)}; mon_answers: {class name: answer}"""
    out = []
    case = {'stream': stream_name, 'desc': (full or d).to_json(), 'classes': sorted(runs), 'enum': bool(enum_states),
            'model': mid}
    hm, hm_err = runs['HierarchicalMachine']
    for cls, (r, err) in sorted(runs.items()):
        ccase = dict(case, cls=cls)
        if err == 'hang':
            if mid == 0:
                out.append(Failure('monitor', 'hang:' + cls, ccase, {'class': cls}, signature=None))
            continue
        if err:
            if mid == 0:
                out.append(Failure('correspondence', 'construction:' + cls, ccase, {'error': err}))
            continue
        if r.bad:
            out.append(Failure('monitor', 'recorder:' + r.bad[0][0], ccase, {'bad': r.bad[:5], 'class': cls},
                               signature='%s.%s' % (prop, r.bad[0][0])))
        a = mon_answers.get(cls)
        if a is not None and a != 'ok':
            if not a.startswith('reject'):
                raise common.MachineryError('monitor answered %r' % a[:200])
            for clause in a.split()[1:]:
                if prop == 'C02' and clause == 'entered-then-exited:source-active':
                    # the open finding is narrower than the monitor's class: classify further (harness side)
                    for kind in ete_active_kinds(d, r) or ['unclassified']:
                        out.append(Failure('monitor', clause + ':' + kind, ccase, {'class': cls, 'monitor': a},
                                           signature='%s.%s:%s' % (prop, clause, kind)))
                    continue
                out.append(Failure('monitor', clause, ccase, {'class': cls, 'monitor': a},
                                   signature='%s.%s' % (prop, clause)))
        if prop == 'C02' and not any(b[0] == 'odd-state' for b in r.bad):      # (the recorder failure is reported above)
            for b in live_oracle(d, r):
                out.append(Failure('monitor', 'oracle:' + b[0], ccase, {'class': cls, 'oracle': list(b)},
                                   signature='C02.oracle.' + b[0]))
    if hm is not None and not hm_err:
        m = nested.parse_model_answer(model_ans)
        if m is None:
            if model_ans == 'noinit':
                out.append(Failure('correspondence', 'model_noinit', case, {}))
        else:
            items, vals, g = m
            if g != 'ok':
                out.append(Failure('correspondence', 'model_ghost_' + g, case, {}))
            if items != hm.items or vals != hm.states_after:
                k = next((i for i, (x, y) in enumerate(zip(items, hm.items)) if x != y), min(len(items), len(hm.items)))
                out.append(Failure('correspondence', 'trace_eq', case, {
                    'first_difference_at': k,
                    'model': [common.show_item(i) for i in items[max(0, k - 4):k + 3]],
                    'impl': [common.show_item(i) for i in hm.items[max(0, k - 4):k + 3]],
                    'model_states': vals, 'impl_states': hm.states_after}))
        ref = outline(d, hm)
        # the async classes evaluate all conditions of a transition (C07 licenses that): scripted outcomes are
        # per invocation, so runs are comparable only when no transition has two conditions
        single_cond = all(len(t['conds']) <= 1 for _s, _e, _i, t in d.all_trans())
        # callbacks of one list run concurrently on the async classes: once one of them really suspends, the order in
        # which callbacks of that list queue further events is not the synchronous one (C07 licenses that)
        reorder = bool(d.suspend) and any(v[0] for v in d.script.values())
        for cls, (r, err) in sorted(runs.items()):
            if 'Async' in cls and (not single_cond or reorder):
                continue
            if cls != 'HierarchicalMachine' and r is not None and not err and outline(d, r) != ref:
                out.append(Failure('correspondence', 'class_differential:' + cls, dict(case, cls=cls),
                                   {'class': cls, 'reference': [list(map(str, ref[0][:60])), ref[1]],
                                    'observed': [list(map(str, outline(d, r)[0][:60])), r.states_after]}))
    return out


def restrict(d, m):
    """the description as life `m` (without membership operations: model `m`) sees it (models of one machine are independent)"""
    if max(1, d.models) == 1:
        return d
    return restrict_life(d, d.life_plan()[0][m]) if d.mops or d.start is not None else _single(d, d.history_of(m), None)


def _single(d, history, initial):
    x = copy.copy(d)
    x.history = history
    if initial is not None:
        x.initial = list(initial)
    x.models, x.mhist, x.falsy, x.start, x.mops = 1, [], [], None, []
    return x


def restrict_life(d, life):
    """one life of one model (registration … removal) is a single-model history of a machine whose `initial` is the
    one the registration used"""
    return _single(d, [d.history[k] for k in life['items']], life['initial'])


def n_lives(d):
    return len(d.life_plan()[0]) if (d.mops or d.start is not None) else max(1, d.models)


def run_batch(prop, stream, descs, offset, ex, only_classes=None, enum_states=None):
    streams, mon_kind = _REGISTRY[prop]
    enum_states = stream.enum_states if enum_states is None else enum_states
    keys = [(i, m) for i, d in enumerate(descs) for m in range(n_lives(d))]
    ans = dict(zip(keys, common.batch_driver([('nested', restrict(descs[i], m).enc_case()) for i, m in keys])))
    all_runs = []
    reqs, where = [], []
    for i, d in enumerate(descs):
        classes = ['HierarchicalMachine']
        if only_classes is not None:
            classes = list(only_classes)
        else:
            k = min(stream.others, len(stream.pool))
            rot = (offset + i) % len(stream.pool)
            classes += [stream.pool[(rot + j) % len(stream.pool)] for j in range(k)]
        if 'HierarchicalMachine' not in classes:
            classes = ['HierarchicalMachine'] + classes
        runs = {}
        for cls in classes:
            runs[cls] = nested.run_guarded(d, cls, enum=enum_states)
            r, err = runs[cls]
            if r is not None and not err:
                for m in range(n_lives(d)):
                    reqs.append(monitor_request(mon_kind, restrict(d, m), r.life_views[m]))
                    where.append((i, m, cls))
        all_runs.append(runs)
    mons = {}
    if reqs:
        for (i, m, cls), a in zip(where, common.batch_driver(reqs)):
            mons.setdefault((i, m), {})[cls] = a
    for i, (d, runs) in enumerate(zip(descs, all_runs)):
        ex.evaluations += 1
        hm = runs['HierarchicalMachine'][0]
        for m in range(n_lives(d)):
            a = ans[(i, m)]
            if a == 'oof':
                ex.oof += 1
            mon = mons.get((i, m), {})
            views = {cls: ((r.life_views[m] if (r is not None and not err) else r), err) for cls, (r, err) in runs.items()}
            fs = judge_case(prop, stream.name, restrict(d, m), a, views, mon, enum_states, full=d, mid=m)
            ex.failures += fs
            ex.traces_validated += len(mon)
        if hm is not None:
            stats(ex.stats, d, hm, mons.get((i, 0), {}).get('HierarchicalMachine'))
            if is_nontrivial(d, hm):
                ex.nontrivial.add(fingerprint(d))
                if len(ex.samples) < 2:
                    ex.samples.append({'stream': stream.name, 'initial': nested.pname(d.initial), 'history': d.history,
                                       'models': d.models, 'states': hm.states_after[:6],
                                       'trace': [common.show_item(i) for i in hm.items[:30]]})


def is_nontrivial(d, run):
    """at least one transition executed with a state change"""
    return any(it[0] == 'call' and it[1] == SLOT['on_enter'] for it in run.items)


def stats(st, d, run, mon):
    def bump(k, kk):
        dd = st.setdefault(k, {})
        dd[str(kk)] = dd.get(str(kk), 0) + 1
    nodes = d.walk()
    bump('n_states', len(nodes))
    bump('depth', max(len(p) for p, _n in nodes))
    bump('queued', int(d.queued))
    bump('models', max(1, d.models))
    bump('falsy_models', sum(1 for f in d.falsy if f))
    bump('suspending_enter_exit_callbacks', min(3, len(d.suspend)))
    bump('local_declarations', min(3, sum(len(ts) for _p, n in nodes for _e, ts in n['local'])))
    shape = 'single'
    for v in run.states_after:
        if isinstance(v, list):
            shape = 'parallel' if shape == 'single' else shape
            if any(isinstance(x, list) for x in v):
                shape = 'parallel-in-parallel'
    bump('configuration_shape', shape)
    for it in run.items:
        if it[0] == 'ret':
            bump('outcomes', 'true' if it[2] else 'false')
        elif it[0] == 'raised':
            bump('outcomes', 'raised:' + common.EXC_NAMES[it[2]])
    execs = 0
    per_event = []
    for g in ghost(d, run.items):
        if g[0] == 'exec':
            execs += 1
        elif g[0] == 'fin':
            per_event.append(execs)
            execs = 0
    for n in per_event:
        bump('transitions_executed_per_event', min(n, 4))
    bump('monitor', (mon or 'none').split()[0])


def chunk(prop, seed, idx, n, stream_name, nchunks):
    import importlib
    importlib.import_module('harness.props.' + prop.lower())
    streams, _kind = _REGISTRY[prop]
    stream = streams[stream_name]
    if stream.enum is not None:
        descs = list(stream.enum(idx, nchunks, n, seed))
    else:
        rng = random.Random('%s/%s/%d/%d' % (prop, stream_name, seed, idx))
        kn = stream.knobs()
        descs = [nested.gen_nested(rng, kn) for _ in range(n)]
    ex = Exploration()
    for b in range(0, len(descs), 40):
        if any(f.kind == 'monitor' and f.what.startswith('hang') for f in ex.failures):
            break       # never let hangs stall a chunk
        run_batch(prop, stream, descs[b:b + 40], idx * 7 + b, ex)
    return ex


# ---------------------------------------------------------------------------------------------
# small-scope enumeration
# ---------------------------------------------------------------------------------------------

def forests(n):
    """all ordered forests with exactly n nodes, as nested lists of children"""
    if n == 0:
        return [[]]
    out = []
    for k in range(1, n + 1):          # size of the first tree
        for kids in forests(k - 1):
            for rest in forests(n - k):
                out.append([kids] + rest)
    return out


def kind_choices(nkids):
    if nkids == 0:
        return [None]
    ch = [('init', 0), ('noinit',)]
    if nkids >= 2:
        ch += [('init', nkids - 1), ('par',), ('par-rev',)]
    return ch


def build_enum_desc(shape, kinds, initial_idx, transitions, conds_false=(), queued=False, history=(0, 0)):
    """shape: nested lists; kinds: per node (pre-order) a kind_choices entry; transitions: list of
    (scope index | None, src index, dst index | None) over pre-order node indices"""
    d = nested.NDesc()
    nxt = [0]
    cbn = [0]

    def cb(slot):
        c = cbn[0]
        cbn[0] += 1
        d.cb_slot[c] = slot
        return c
    order = []

    def mk(children):
        i = nxt[0]
        nxt[0] += 1
        n = {'name': i, 'children': [], 'initial': [], 'pkey': False, 'ignore': None,
             'on_enter': [cb(SLOT['on_enter'])], 'on_exit': [cb(SLOT['on_exit'])], 'local': []}
        order.append(n)
        for ch in children:
            n['children'].append(mk(ch))
        kd = kinds[i]
        names = [c['name'] for c in n['children']]
        if kd is not None:
            if kd[0] == 'init':
                n['initial'] = [names[kd[1]]]
            elif kd[0] == 'par':
                n['initial'] = list(names)
                n['pkey'] = True
            elif kd[0] == 'par-rev':
                n['initial'] = list(reversed(names))
        return n
    d.roots = [mk(ch) for ch in shape]
    paths = [p for p, _n in d.walk()]
    d.initial = list(paths[initial_idx])
    d.finalize = [cb(SLOT['finalize_event'])]
    d.queued = queued
    ts_glob = []
    for ti, (scope, src, dst) in enumerate(transitions):
        conds = [(cb(SLOT['conditions']), True)]
        if ti in conds_false:
            for k in range(4):
                d.script[(conds[0][0], k)] = ((), ('ret', False))
        t = {'prepare': [cb(SLOT['prepare'])], 'conds': conds, 'before': [cb(SLOT['before'])], 'after': []}
        if scope is None:
            t['source'] = list(paths[src])
            t['dest'] = None if dst is None else list(paths[dst])
            ts_glob.append(t)
        else:
            sp = paths[scope]
            t['source'] = list(paths[src][len(sp):])
            t['dest'] = None if dst is None else list(paths[dst][len(sp):])
            node = d.node(sp)
            if node['local']:
                node['local'][0][1].append(t)
            else:
                node['local'].append((0, [t]))
    if ts_glob:
        d.events = [(0, ts_glob)]
    d.history = list(history)
    return d


def enum_single(max_states, idx, nchunks, limit):
    """every tree with ≤ max_states states × compound kinds × ONE transition (global, or local in a common
    ancestor scope) × every state as the machine's initial → event fired twice"""
    count = 0
    produced = 0
    for n in range(1, max_states + 1):
        for shape in forests(n):
            # number of children per node in pre-order
            kid_counts = []

            def walk(children):
                for ch in children:
                    kid_counts.append(len(ch))
                    walk(ch)
            walk(shape)
            # ancestors by pre-order index
            parent = {}

            def walk2(children, par, counter):
                for ch in children:
                    i = counter[0]
                    counter[0] += 1
                    parent[i] = par
                    walk2(ch, i, counter)
            walk2(shape, None, [0])

            def ancestors(i):
                out = []
                while parent[i] is not None:
                    i = parent[i]
                    out.append(i)
                return out
            for kinds in itertools.product(*[kind_choices(k) for k in kid_counts]):
                for src in range(n):
                    for dst in [None] + list(range(n)):
                        scopes = [None] + [a for a in ancestors(src) if dst is None or a in ancestors(dst)]
                        for scope in scopes:
                            for init in range(n):
                                count += 1
                                if count % nchunks != idx:
                                    continue
                                produced += 1
                                if produced > limit:
                                    return
                                yield build_enum_desc(shape, kinds, init, [(scope, src, dst)])


def enum_pairs(max_states, idx, nchunks, limit, stride, offset=0):
    """trees with ≤ max_states states × compound kinds × TWO transitions of one event (global / local) × the four
    condition valuations × the root states as initial; every `stride`-th combination"""
    count = 0
    produced = 0
    for n in range(2, max_states + 1):
        for shape in forests(n):
            kid_counts = []

            def walk(children):
                for ch in children:
                    kid_counts.append(len(ch))
                    walk(ch)
            walk(shape)
            parent = {}

            def walk2(children, par, counter):
                for ch in children:
                    i = counter[0]
                    counter[0] += 1
                    parent[i] = par
                    walk2(ch, i, counter)
            walk2(shape, None, [0])

            def ancestors(i):
                out = []
                while parent[i] is not None:
                    i = parent[i]
                    out.append(i)
                return out
            roots = [i for i in range(n) if parent[i] is None]
            if not any(k >= 2 for k in kid_counts):
                continue        # two transitions are interesting where regions exist
            for kinds in itertools.product(*[kind_choices(k) for k in kid_counts]):
                if not any(kd is not None and kd[0].startswith('par') for kd in kinds):
                    continue
                singles = []
                for src in range(n):
                    for dst in [None] + list(range(n)):
                        for scope in [None] + [a for a in ancestors(src) if dst is None or a in ancestors(dst)]:
                            singles.append((scope, src, dst))
                for a in range(len(singles)):
                    for b in range(a, len(singles)):
                        for val in ((), (0,), (1,), (0, 1)):
                            for init in roots:
                                count += 1
                                if count % stride != offset:
                                    continue
                                if (count // stride) % nchunks != idx:
                                    continue
                                produced += 1
                                if produced > limit:
                                    return
                                yield build_enum_desc(shape, kinds, init, [singles[a], singles[b]], conds_false=val,
                                                      history=(0,))


# ---------------------------------------------------------------------------------------------
# shrinking
# ---------------------------------------------------------------------------------------------

def shrink_steps(case):
    d = case['desc']

    def mk(nd):
        c = dict(case)
        c['desc'] = nd
        return c
    for i in range(len(d['history']) - 1, -1, -1):
        if len(d['history']) > 1:
            c = copy.deepcopy(d)
            del c['history'][i]
            if i < len(c.get('mhist', [])):
                del c['mhist'][i]
            for o in c.get('mops') or []:
                if o[0] > i:
                    o[0] -= 1
            yield mk(c)
    for j in range(len(d.get('mops') or [])):
        c = copy.deepcopy(d)
        del c['mops'][j]
        yield mk(c)
        if len(d['mops'][j][2]) > 1:
            for q in range(len(d['mops'][j][2])):
                c = copy.deepcopy(d)
                del c['mops'][j][2][q]
                yield mk(c)
        if d['mops'][j][3] is not None:
            c = copy.deepcopy(d)
            c['mops'][j][3] = None
            yield mk(c)
    if d.get('suspend'):
        for i in range(len(d['suspend'])):
            c = copy.deepcopy(d)
            del c['suspend'][i]
            yield mk(c)
    # drop transitions
    for ei, (_ev, ts) in enumerate(d['events']):
        for ti in range(len(ts)):
            c = copy.deepcopy(d)
            del c['events'][ei][1][ti]
            if not c['events'][ei][1]:
                del c['events'][ei]
            yield mk(c)

    def nodes(ns, path):
        for i, n in enumerate(ns):
            yield path + [i], n
            for x in nodes(n['children'], path + [i]):
                yield x

    def at(c, ipath):
        ns = c['roots']
        n = None
        for i in ipath:
            n = ns[i]
            ns = n['children']
        return n
    for ipath, n in nodes(d['roots'], []):
        for li, (_ev, ts) in enumerate(n['local']):
            for ti in range(len(ts)):
                c = copy.deepcopy(d)
                node = at(c, ipath)
                del node['local'][li][1][ti]
                if not node['local'][li][1]:
                    del node['local'][li]
                yield mk(c)
    # drop leaf states that nothing refers to
    refs = set()
    for scope, _ev, _i, t in nested.NDesc.from_json(copy.deepcopy(d)).all_trans():
        refs.add(tuple(scope + t['source']))
        for k in range(1, len(scope + t['source'])):
            refs.add(tuple((scope + t['source'])[:k]))
        if t['dest'] is not None:
            full = scope + t['dest']
            for k in range(1, len(full) + 1):
                refs.add(tuple(full[:k]))
    for k in range(1, len(d['initial']) + 1):
        refs.add(tuple(d['initial'][:k]))

    def names(ns, pre):
        for i, n in enumerate(ns):
            yield pre + [n['name']], (ns, i, n)
            for x in names(n['children'], pre + [n['name']]):
                yield x
    for p, (_ns, i, n) in list(names(d['roots'], [])):
        if not n['children'] and tuple(p) not in refs:
            c = copy.deepcopy(d)
            # locate the parent list in the copy
            ns = c['roots']
            parent = None
            for seg in p[:-1]:
                parent = next(x for x in ns if x['name'] == seg)
                ns = parent['children']
            idx = next(j for j, x in enumerate(ns) if x['name'] == p[-1])
            del ns[idx]
            if parent is not None:
                parent['initial'] = [x for x in parent['initial'] if x != p[-1]]
                if not ns:
                    parent['pkey'] = False
            if c['roots']:
                yield mk(c)
    # drop scripted entries, conditions, optional callbacks
    for i in range(len(d['script'])):
        c = copy.deepcopy(d)
        del c['script'][i]
        yield mk(c)
    for key in ('prepare_event', 'before_sc', 'after_sc'):
        if d[key]:
            c = copy.deepcopy(d)
            c[key] = []
            yield mk(c)
    if d['queued'] and not any(v[0] for _k, v in d['script']):
        # only without re-entrant commands: on an unqueued machine callbacks must not trigger events
        c = copy.deepcopy(d)
        c['queued'] = False
        yield mk(c)


class NestedCheck(runner.Check):
    streams = ()
    monitor_kind = None

    def __init__(self):
        register(self.prop, self.streams, self.monitor_kind)

    def stream(self, name):
        return _REGISTRY[self.prop][0][name]

    def corpus_cases(self):
        import glob
        import os
        out = []
        for path in sorted(glob.glob(os.path.join(common.CORPUS, self.prop, '*.json'))):
            with open(path) as fh:
                out.append(json.load(fh))
        return out

    def explore(self, tier, seed):
        ex = Exploration()
        # corpus first
        for payload in self.corpus_cases():
            fs = self.rejudge(payload['case'])
            ex.evaluations += 1
            ex.failures += fs
        payloads = []
        for s in self.streams:
            if tier not in s.tiers:
                continue
            nch, per = s.quick if tier == 'quick' else s.thorough
            payloads += [(self.prop, seed, i, per, s.name, nch) for i in range(nch)]
        for part in runner.parallel(chunk, payloads):
            ex.merge(part)
        done = set()
        known = set(k.get('signature') for k in self.known())
        for f in ex.failures:
            key = (f.kind, f.what.split(':')[0] if f.kind != 'monitor' else f.what, f.signature)
            if key in done:
                continue
            done.add(key)
            if f.kind == 'monitor' and f.signature in known:
                continue        # a listed finding: its minimal witness is in corpus/, nothing to shrink
            try:
                f.case = runner.shrink(f.case, self.fails_like(f), shrink_steps, budget=12 if f.what.startswith('hang') else 250)
                self.annotate(f)
            except common.MachineryError:
                raise
            except BaseException:
                pass
        return ex

    def rejudge(self, case):
        d = nested.NDesc.from_json(case['desc'])
        stream = self.stream(case['stream']) if case.get('stream') in _REGISTRY[self.prop][0] else self.streams[0]
        ex = Exploration()
        classes = [case['cls']] if case.get('cls') else case.get('classes')
        run_batch(self.prop, stream, [d], 0, ex, only_classes=classes, enum_states=bool(case.get('enum')))
        return ex.failures

    def fails_like(self, f):
        def fn(case):
            return any(x.kind == f.kind and x.what == f.what and x.signature == f.signature for x in self.rejudge(case))
        return fn

    def annotate(self, f):
        d = nested.NDesc.from_json(f.case['desc'])
        cls = f.case.get('cls') or 'HierarchicalMachine'
        r, err = nested.run_guarded(d, cls, enum=bool(f.case.get('enum')))
        f.details['shrunk_class'] = cls
        if r is not None:
            li = f.case.get('model', 0)
            vw = r.life_views[li] if li < len(r.life_views) else r.life_views[0]
            f.details['shrunk_model'] = f.case.get('model', 0)
            f.details['shrunk_states'] = vw.states_after
            f.details['shrunk_ghost'] = [' '.join(map(str, g)) for g in ghost(d, vw.items)]
            f.details['shrunk_bad'] = vw.bad[:3]

    def search(self, tier, seed, failures):
        payloads = []
        for s in self.streams:
            if s.enum is None:
                payloads += [(self.prop, seed + 7919, i, 150, s.name, 32) for i in range(32)]
        found = []
        known = set(k.get('signature') for k in self.known())
        for part in runner.parallel(chunk, payloads):
            found += [f for f in part.failures if f.kind == 'monitor' and f.signature not in known]
        for f in found[:1]:
            f.case = runner.shrink(f.case, self.fails_like(f), shrink_steps, budget=250)
            self.annotate(f)
        return found

    def replay(self, path):
        with open(path) as fh:
            payload = json.load(fh)
        if 'case' not in payload:
            print('no concrete input in this replay file: broken obligation', payload.get('broken_obligation'))
            return 1
        case = payload['case']
        d = nested.NDesc.from_json(case['desc'])
        cls = case.get('cls') or 'HierarchicalMachine'
        print('class:', cls, ' initial:', nested.pname(d.initial), ' queued:', d.queued, ' history:', d.history,
              ' models:', d.models, ' model of each call:', d.mhist, ' falsy:', d.falsy, ' suspending callbacks:', d.suspend,
              ' registered at construction:', d.start, ' membership operations [before call k, kind, models, initial]:', d.mops)
        for p, n in d.walk():
            print('  ' * len(p) + nested.pname(p), 'initial', [nested.seg(i) for i in n['initial']],
                  ['local e%d: %s -> %s' % (e, nested.pname(t['source']), t['dest'] and nested.pname(t['dest']))
                   for e, ts in n['local'] for t in ts])
        for e, ts in d.events:
            for t in ts:
                print('global e%d: %s -> %s' % (e, nested.pname(t['source']), t['dest'] and nested.pname(t['dest'])))
        r, err = nested.run_guarded(d, cls, enum=bool(case.get('enum')))
        if r is not None:
            for li, vw in enumerate(r.life_views):
                print('life %d (model %d): states after each of its calls:' % (li, r.lives[li]['model']), vw.states_after,
                      ' recorder problems:', vw.bad[:3])
                for g in ghost(d, vw.items):
                    print('   ', g)
        fs = self.rejudge(case)
        for f in fs:
            print('FAIL', f.kind, f.what, f.signature)
        return 1 if fs else 0
