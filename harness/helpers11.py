"""C11, flat machines: case generator, protocol encoder, runner on the real `transitions.Machine`
(introspection of every helper after every step), Python oracle of the property clauses, and the
comparison with the Lean model's snapshots (`c11flat`, lean/Model/Helpers.lean).

A case is a history of API calls on one machine:

    ['init', s]                      machine.initial = s
    ['state', s]                     machine.add_states(s)
    ['trans', e, src, dst, passes]   machine.add_transition(e, src | '*', dst | '=' | None, conditions=…)
    ['remove', e, src, dst]          machine.remove_transition(e, src | '*', dst | '*')
    ['model', m]                     machine.add_model(<object m of case['models']>)
    ['fire', m, e]                   machine._get_trigger(model m, e)      (what model.trigger(e) is bound to)

After every call every helper of every registered model is introspected (see `Oracle`)."""
import copy
import enum
import functools
import random

from . import common


def never(*_a, **_k):
    """a condition that never passes (module level: survives deepcopy by reference)"""
    return False


ERR_CODES = {'ValueError': 1, 'AttributeError': 2, 'MachineError': 3, 'KeyError': 4}

STATE_VOCAB = ['A', 'B', 'C', 'D', 'E', 'a_1', 'x', '1']
ATTRS = ['state', 'state', 'state', 'mode', 'my_state', 'st']
USER_EVENTS = ['go', 'run', 'stop', 'e1', 'A']
ODD_EVENTS = ['is_A', 'to_B', 'may_go', 'trigger', 'is_mode_A', 'to_mode_B', 'may_trigger']


def err_code(e):
    from transitions.core import MachineError
    if isinstance(e, MachineError):
        return 3
    if isinstance(e, KeyError):
        return 4
    if isinstance(e, AttributeError):
        return 2
    if isinstance(e, ValueError):
        return 1
    return 9


def enc_name(s):
    return [len(s)] + [ord(c) for c in s]


def enc_opt_name(s):
    return [0] if s is None else [1] + enc_name(s)


def is_name(attr, s):
    return 'is_%s' % s if attr == 'state' else 'is_%s_%s' % (attr, s)


def to_name(attr, s):
    return 'to_%s' % s if attr == 'state' else 'to_%s_%s' % (attr, s)


# ---------------------------------------------------------------------------------------------
# generator
# ---------------------------------------------------------------------------------------------

class Knobs(object):
    def __init__(self, **kw):
        self.max_states = 5
        self.max_models = 2
        self.max_steps = 10
        self.p_override = 0.25
        self.p_auto = 0.6
        self.p_enum = 0.3
        self.p_clash = 0.5         # a model class predefines names the machine would like to bind
        self.p_odd_event = 0.08    # events named like helpers (name hygiene broken: correspondence only)
        self.p_attr_event = 0.05   # an event named like the state attribute (must be refused)
        self.p_self_model = 0.05
        self.p_remove = 0.12
        self.p_failing = 0.12      # failing reconfiguration calls, caught by the caller, followed by the corrected call
        self.__dict__.update(kw)


def gen_model_spec(rng, kn, attr, states, events):
    """user attributes of a model class / instance: [name, level ('cls'|'inst'), kind ('method'|'int'|'none'|'func')]"""
    spec = []
    if rng.random() < kn.p_clash:
        cands = ([is_name(attr, s) for s in states] + [to_name(attr, s) for s in states] + list(events) +
                 ['may_' + e for e in events] + ['trigger', 'may_trigger', 'other', 'helper'])
        for n in rng.sample(cands, min(len(cands), rng.randint(1, 4))):
            level = rng.choice(['cls', 'cls', 'inst'])
            # falsy but defined values (False, 0, '', (), []) are attributes like any other; only None is not judged
            kind = rng.choice(['method', 'method', 'int', 'none', 'false', 'zero', 'empty']) if level == 'cls' \
                else rng.choice(['int', 'func', 'none', 'false', 'zero', 'empty'])
            if n not in [x[0] for x in spec]:
                spec.append([n, level, kind])
    if rng.random() < 0.1:
        spec.append([attr, rng.choice(['cls', 'inst']), 'int'])     # a pre-existing value under the state attribute
    return spec


def gen_case(rng, kn):
    attr = rng.choice(ATTRS)
    n_states = rng.randint(1, kn.max_states)
    states = rng.sample(STATE_VOCAB, n_states)
    pool = list(states)
    extra = [s for s in STATE_VOCAB if s not in states]
    events = rng.sample(USER_EVENTS, rng.randint(1, 3))
    if rng.random() < kn.p_odd_event:
        events.append(rng.choice(ODD_EVENTS))
    case = {'kind': 'flat', 'attr': attr, 'override': rng.random() < kn.p_override, 'auto': rng.random() < kn.p_auto,
            'enum': rng.random() < kn.p_enum, 'models': [], 'ops': []}
    n_models = rng.randint(1, kn.max_models)
    for m in range(n_models):
        if m == 0 and rng.random() < kn.p_self_model:
            case['models'].append('self')
        else:
            case['models'].append(gen_model_spec(rng, kn, attr, pool + extra[:1], events))
    ops = case['ops']
    known = []

    def state_op():
        cands = [s for s in STATE_VOCAB if s not in known] or STATE_VOCAB
        s = rng.choice(cands) if rng.random() < 0.9 else rng.choice(STATE_VOCAB)
        if s not in known:
            known.append(s)
        return ['state', s]

    def some_state(p_unknown=0.05):
        if not known or rng.random() < p_unknown:
            return rng.choice(STATE_VOCAB)
        return rng.choice(known)

    def trans_op():
        e = rng.choice(events)
        if rng.random() < kn.p_attr_event:
            e = attr
        src = '*' if rng.random() < 0.2 else some_state()
        r = rng.random()
        dst = '=' if r < 0.1 else None if r < 0.2 else some_state()
        return ['trans', e, src, dst, rng.random() < 0.85]

    def remove_op():
        e = rng.choice(events) if rng.random() < 0.95 else 'nope'
        src = None if rng.random() < 0.6 else some_state()
        dst = None if rng.random() < 0.7 else some_state()
        return ['remove', e, src, dst]

    for _ in range(rng.randint(0, min(3, n_states))):
        ops.append(state_op())
    s0 = some_state(0.3)
    ops.append(['init', s0])
    if s0 not in known:
        known.append(s0)
    for _ in range(rng.randint(0, 3)):
        ops.append(trans_op())
    added = []
    for m in range(n_models):
        if rng.random() < 0.7:
            ops.append(['model', m])
            added.append(m)
    steps = rng.randint(2, kn.max_steps)
    for _ in range(steps):
        if rng.random() < kn.p_failing:
            # a call that must fail (the caller catches the exception), then the corrected call
            cands = [x for x in range(n_models) if x not in added]
            if cands:
                if rng.random() < 0.6:
                    ops.append(['model_bad', cands[0], 'nowhere'])   # add_model(model, initial=<unknown state>)
                else:
                    ops.append(['unmodel_bad', cands[0]])            # remove_model(<model that is not registered>)
                ops.append(['model', cands[0]])
                added.append(cands[0])
            continue
        r = rng.random()
        if r < 0.40 and added:
            m = rng.choice(added)
            if case['auto'] and known and rng.random() < 0.4:
                ops.append(['fire', m, to_name(attr, rng.choice(known))])
            else:
                ops.append(['fire', m, rng.choice(events) if rng.random() < 0.93 else 'nope'])
        elif r < 0.52 and len(known) < kn.max_states + 1:
            ops.append(state_op())
        elif r < 0.72:
            ops.append(trans_op())
        elif r < 0.72 + kn.p_remove:
            ops.append(remove_op())
        elif r < 0.95:
            m = rng.randrange(n_models)
            ops.append(['model', m])
            if m not in added:
                added.append(m)
        else:
            ops.append(['init', some_state(0.2)])
            if ops[-1][1] not in known:
                known.append(ops[-1][1])
    return case


# ---------------------------------------------------------------------------------------------
# realisation on the real classes
# ---------------------------------------------------------------------------------------------

class UserValue(object):
    """a plain user attribute value with identity"""

    def __init__(self, n):
        self.n = n

    def __repr__(self):
        return 'UserValue(%r)' % (self.n,)


def _mk_method(n):
    def user_method(self, *a, **k):
        return ('user', n)
    user_method.__name__ = str(n)
    return user_method


def _mk_func(n):
    def user_func(*a, **k):
        return ('user', n)
    return user_func


def user_value(kind, n, idx, i):
    """the value of a pre-existing attribute of the given kind"""
    if kind == 'method':
        return _mk_method(n)
    if kind == 'func':
        return _mk_func(n)
    if kind == 'none':
        return None
    if kind == 'false':
        return False
    if kind == 'zero':
        return 0
    if kind == 'empty':
        return [(), '', []][(idx + i) % 3]
    return UserValue((idx, i))


def make_model(spec, idx):
    """build a fresh class + instance from a model spec; returns (obj, originals {name: (level, kind, value)})"""
    ns = {}
    originals = {}
    for i, (n, level, kind) in enumerate(spec):
        if level == 'cls':
            v = user_value(kind, n, idx, i)
            ns[n] = v
            originals[n] = (level, kind, v)
    cls = type('Model%d' % idx, (object,), ns)
    obj = cls()
    for i, (n, level, kind) in enumerate(spec):
        if level == 'inst':
            v = user_value(kind, n, idx, i)
            obj.__dict__[n] = v
            originals[n] = (level, kind, v)
    return obj, originals


class FlatRun(object):
    """Realises a case step by step on `transitions.Machine`."""

    def __init__(self, case, machine_cls=None):
        from transitions import Machine
        self.case = case
        self.attr = case['attr']
        names = sorted(set(STATE_VOCAB) | set(o[1] for o in case['ops'] if o[0] in ('state', 'init')))
        self.enum = enum.Enum('S11', {n: i for i, n in enumerate(names)}) if case['enum'] else None
        cls = machine_cls or Machine
        self.machine = cls(model=None, states=None, initial=None, auto_transitions=case['auto'],
                           model_attribute=case['attr'], model_override=case['override'])
        self.objs = {}          # model index -> object
        self.originals = {}     # model index -> {name: (level, kind, value)}
        self.user_ids = {}      # model index -> {name: id}
        for i, spec in enumerate(case['models']):
            if spec == 'self':
                self.objs[i] = self.machine
                self.originals[i] = None
            else:
                self.objs[i], self.originals[i] = make_model(spec, i)
        self.registered = []    # model indices in registration order
        self.all_claims = {}    # helper name -> every (kind, subject) that wanted it so far
        self.deleted = {}       # model index -> names remove_transition deleted from the model (model_override)
        self.ever_claimed = {}  # model index -> user-defined names some helper wanted (model_override replaces those)

    def st(self, name):
        """a state as passed to the API"""
        if name is None or name in ('*', '='):
            return name
        return self.enum[name] if self.enum is not None else name

    def sname(self, value):
        return value.name if isinstance(value, enum.Enum) else value

    def do(self, op):
        """execute one step; returns (error code, fire result 0/1/2)"""
        m = self.machine
        try:
            k = op[0]
            if k == 'init':
                if self.enum is not None and op[1] not in m.states:
                    # `initial = <Enum member>` would create the missing state from the member's NAME (a string
                    # state); a user of Enum states registers the member first
                    m.add_states(self.st(op[1]))
                m.initial = self.st(op[1])
            elif k == 'state':
                m.add_states(self.st(op[1]))
            elif k == 'trans':
                _k, e, src, dst, passes = op
                m.add_transition(e, self.st(src), self.st(dst), conditions=None if passes else [never])
            elif k == 'remove':
                _k, e, src, dst = op
                m.remove_transition(e, source='*' if src is None else self.st(src), dest='*' if dst is None else self.st(dst))
            elif k == 'model':
                obj = self.objs[op[1]]
                m.add_model(obj)
                if op[1] not in self.registered and any(obj is x for x in m.models):
                    self.registered.append(op[1])
            elif k == 'model_bad':
                m.add_model(self.objs[op[1]], initial=op[2])
            elif k == 'unmodel_bad':
                m.remove_model(self.objs[op[1]])
            elif k == 'fire':
                if op[1] not in self.registered:
                    return 2, 0
                r = m._get_trigger(self.objs[op[1]], op[2])
                return 0, 2 if r else 1
            return 0, 0
        except BaseException as e:  # noqa: the canonical exception kind is what is compared
            return err_code(e), 0

    # -- protocol ---------------------------------------------------------------------------
    def interesting(self):
        """every attribute name the machine could want to bind in this case"""
        names = set(['trigger', 'may_trigger'])
        for op in self.case['ops']:
            if op[0] in ('trans', 'remove', 'fire'):
                e = op[2] if op[0] == 'fire' else op[1]
                names |= set([e, 'may_' + e])
        for s in STATE_VOCAB:
            names |= set([is_name(self.attr, s), to_name(self.attr, s), 'may_' + to_name(self.attr, s)])
        return names

    def enc_obj(self, i):
        """the object's user namespace as the Lean `Obj` (class layer, instance layer)"""
        obj = self.objs[i]
        ids = self.user_ids.setdefault(i, {})
        if self.case['models'][i] == 'self':
            keep = self.interesting()
            cls = [(n, getattr(type(obj), n, 0) is None) for n in sorted(dir(type(obj))) if n in keep]
            inst = [(n, vars(obj)[n] is None) for n in sorted(vars(obj)) if n in keep]
        else:
            spec = self.case['models'][i]
            cls = [(n, kind == 'none') for n, level, kind in spec if level == 'cls']
            inst = [(n, kind == 'none') for n, level, kind in spec if level == 'inst']
        out = []
        for layer in (cls, inst):
            out.append(len(layer))
            for n, is_none in layer:
                out += enc_name(n)
                if is_none:
                    out += [1]
                else:
                    ids.setdefault(n, len(ids) + 1)
                    out += [0, ids[n]]
        return out

    def enc_request(self):
        c = self.case
        out = enc_name(c['attr']) + [int(c['override']), int(c['auto'])]
        out.append(len(c['ops']))
        for op in c['ops']:
            k = op[0]
            if k == 'init':
                out += [0] + enc_name(op[1])
            elif k == 'state':
                out += [1] + enc_name(op[1])
            elif k == 'trans':
                _k, e, src, dst, passes = op
                out += [2] + enc_name(e) + ([0] if src == '*' else [1] + enc_name(src))
                out += [1] if dst == '=' else [2] if dst is None else [0] + enc_name(dst)
                out += [int(passes)]
            elif k == 'remove':
                out += [3] + enc_name(op[1]) + enc_opt_name(op[2]) + enc_opt_name(op[3])
            elif k == 'model':
                out += [4, op[1]] + self.enc_obj(op[1])
            elif k in ('model_bad', 'unmodel_bad'):
                out += [6, 1]          # must raise ValueError and change nothing
            elif k == 'fire':
                out += [5, op[1]] + enc_name(op[2])
        return out


# ---------------------------------------------------------------------------------------------
# introspection (what the implementation really put on the model)
# ---------------------------------------------------------------------------------------------

def classify(run, i, name, v):
    """canonical description of one instance attribute of model i: (kind, payload)"""
    if isinstance(v, functools.partial):
        f = v.func
        fn = getattr(f, '__name__', '')
        owner = getattr(f, '__self__', None)
        if fn == 'is_state':
            return ('isState', run.sname(v.args[0]))
        if fn == '_get_trigger':
            return ('triggerFn', '')
        if fn == '_can_trigger':
            return ('mayTriggerFn', '') if len(v.args) == 1 else ('may', v.args[1])
        if fn == 'trigger' and hasattr(owner, 'transitions'):
            return ('trigger', owner.name)
        if fn == 'trigger_event':
            return ('trigger', v.args[1])
        if fn == 'to_state':
            return ('toFn', '')
        return ('partial?', fn)
    if name == run.attr:
        try:
            return ('value', run.sname(v))
        except Exception:
            return ('value?', repr(v))
    orig = run.originals.get(i)
    if orig is None:                       # the machine as its own model
        return ('user', run.user_ids.get(i, {}).get(name, 0)) if name in run.user_ids.get(i, {}) else ('userNone', '')
    if name in orig and orig[name][2] is v:
        return ('userNone', '') if v is None else ('user', run.user_ids.get(i, {}).get(name, 0))
    return ('foreign', repr(v)[:40])


def introspect(run):
    """the machine as the correspondence sees it (mirror of `Handlers.snapshot`)"""
    m = run.machine
    snap = {'states': list(m.states.keys()), 'events': [], 'models': [], 'triggers': [], 'sizes': []}
    for e, ev in m.events.items():
        ts = []
        for _src, lst in ev.transitions.items():
            for t in lst:
                ts.append((t.source, t.dest, not t.conditions))
        snap['events'].append((e, ts))
    for i in run.registered:
        obj = run.objs[i]
        inst = []
        for n, v in vars(obj).items():
            if run.case['models'][i] == 'self' and not isinstance(v, functools.partial) and n != run.attr \
                    and n not in run.interesting():
                continue                     # the machine's own instance attributes
            inst.append((n,) + classify(run, i, n, v))
        value = getattr(obj, run.attr, None)
        snap['models'].append({'id': i, 'state': run.sname(value) if value is not None else None, 'inst': sorted(inst)})
    return snap


# ---------------------------------------------------------------------------------------------
# parsing the Lean snapshot
# ---------------------------------------------------------------------------------------------

class Cursor(object):
    def __init__(self, nums):
        self.n = nums
        self.i = 0

    def nat(self):
        v = self.n[self.i]
        self.i += 1
        return v

    def name(self):
        k = self.nat()
        s = ''.join(chr(c) for c in self.n[self.i:self.i + k])
        self.i += k
        return s

    def opt_name(self):
        return self.name() if self.nat() else None

    def lst(self, f):
        return [f() for _ in range(self.nat())]

    def done(self):
        return self.i >= len(self.n)


BINDING_KINDS = ['user', 'userNone', 'value', 'isState', 'trigger', 'may', 'triggerFn', 'mayTriggerFn', 'toFn']
CALL_KINDS = ['ok', 'error', 'answer', 'users', 'missing']


def parse_snapshot(c):
    snap = {}
    snap['states'] = c.lst(c.name)

    def tr():
        return (c.name(), c.opt_name(), bool(c.nat()))
    snap['events'] = c.lst(lambda: (c.name(), c.lst(tr)))

    def binding():
        n = c.name()
        k = BINDING_KINDS[c.nat()]
        if k == 'user':
            c.nat()
            return (n, k, c.nat())
        return (n, k, c.name())

    def call():
        k = CALL_KINDS[c.nat()]
        return (k, c.nat())

    def model():
        mid = c.nat()
        st = c.opt_name()
        inst = sorted(c.lst(binding))
        calls = c.lst(lambda: (call(), c.opt_name(), call(), c.opt_name()))
        iss = c.lst(call)
        return {'id': mid, 'state': st, 'inst': inst, 'calls': calls, 'is': iss}
    snap['models'] = c.lst(model)
    snap['triggers'] = c.lst(lambda: c.lst(c.name))
    snap['sizes'] = c.lst(lambda: [c.nat() for _ in range((len(snap['states']) + 1) ** 2)])
    return snap


def parse_answer(ans, n_ops):
    if ans in ('bad-input', ''):
        raise common.MachineryError('c11flat rejected its input')
    c = Cursor([int(x) for x in ans.split()])
    out = []
    for _ in range(n_ops):
        err = c.nat()
        res = c.nat()
        out.append((err, res, parse_snapshot(c)))
    if not c.done():
        raise common.MachineryError('c11flat: trailing output')
    return out


# ---------------------------------------------------------------------------------------------
# the oracle: the property's clauses stated directly on the real objects
# ---------------------------------------------------------------------------------------------

def machine_bound(v, kinds=('is_state', '_get_trigger', '_can_trigger', 'trigger', 'trigger_event', 'to_state')):
    return isinstance(v, functools.partial) and getattr(v.func, '__name__', '') in kinds


def outcome(f, *a):
    try:
        return ('ret', bool(f(*a)))
    except BaseException as e:  # noqa
        return ('raised', type(e).__name__)


def table_shape(m):
    """the keys of the events table and of every event's per-source dict, with the number of transitions"""
    return [(e, [(src, len(lst)) for src, lst in ev.transitions.items()]) for e, ev in m.events.items()]


def case_events(case):
    """event names the history itself uses in add_transition / remove_transition"""
    return set(op[1] for op in case['ops'] if op[0] in ('trans', 'remove'))


class Oracle(object):
    """Judges the real machine after a step: every clause of C11 on every registered model.
    `problems` collects (clause, details).  A helper name is judged only when exactly one helper wants it by the
    documented naming rules (name hygiene) and the model did not define it as None."""

    def __init__(self, run, twin):
        self.run = run
        self.twin_m, self.twin_objs = twin
        self.problems = []

    def bad(self, clause, **details):
        self.problems.append((clause, details))

    def claims(self):
        """helper name -> set of (kind, subject) that want it"""
        run, m = self.run, self.run.machine
        want = {}

        def add(n, kind, x):
            want.setdefault(n, set()).add((kind, x))
            # cumulative over the history: a name two helpers ever wanted is never judged
            run.all_claims.setdefault(n, set()).add((kind, x))
        add('trigger', 'triggerFn', '')
        add('may_trigger', 'mayTriggerFn', '')
        for e in m.events:
            add(e, 'event', e)
            add('may_' + e, 'may', e)
        for s in m.states:
            add(is_name(run.attr, s), 'is', s)
        return want

    def check(self, last_op, full):
        run, m = self.run, self.run.machine
        twin_m, twin_objs = self.twin_m, self.twin_objs
        attr = run.attr
        override = run.case['override']
        auto = bool(run.case['auto'])
        want = self.claims()
        own_events = case_events(run.case)
        # -- to_<state> events exist for every state iff auto transitions are enabled --------------
        for s in m.states:
            n = to_name(attr, s)
            if n not in own_events and (n in m.events) != auto:
                self.bad('to-event-exists-iff-auto', state=s, event=n, exists=n in m.events, auto=auto)
        if attr in m.events:
            self.bad('event-named-like-the-state-attribute', event=attr)
        if not run.registered:
            return
        for pos, i in enumerate(run.registered):
            obj, twin = run.objs[i], twin_objs[pos]
            orig = run.originals[i]
            if orig is None:
                continue                   # the machine as its own model: correspondence only
            user = {n: v for n, v in orig.items() if n != attr}
            cur = getattr(obj, attr, None)
            curname = run.sname(cur) if cur is not None else None
            # -- the state attribute is a registered state, never a callable -----------------
            if curname not in m.states:
                self.bad('state-attribute-not-a-registered-state', model=i, value=repr(cur))
                continue
            # -- pre-existing attributes ------------------------------------------------------
            for n, (level, kind, v) in user.items():
                if kind == 'none':
                    continue               # `getattr(model, name, None) is None` cannot see it: not judged
                in_inst = n in vars(obj)
                untouched = (not in_inst and type(obj).__dict__.get(n) is v) if level == 'cls' else (in_inst and vars(obj)[n] is v)
                if not override:
                    if not untouched:
                        self.bad('user-attribute-not-preserved', model=i, name=n, level=level,
                                 now=repr(vars(obj).get(n, '<gone>'))[:60], last_op=last_op)
                elif n in want:
                    run.ever_claimed.setdefault(i, set()).add(n)
                elif n not in run.ever_claimed.get(i, ()) and not untouched:
                    self.bad('user-attribute-replaced-though-no-helper-has-that-name', model=i, name=n, last_op=last_op)
            # -- presence of every helper according to the override policy ----------------------
            judged = {}
            for n, cl in want.items():
                if len(run.all_claims[n]) != 1 or n == attr or (n in user and user[n][1] == 'none'):
                    continue
                if n in run.deleted.get(i, ()):
                    continue               # model_override: the replacement was deleted together with its event
                expected = (n in user) == override
                present = machine_bound(vars(obj).get(n))
                if present != expected:
                    self.bad('helper-missing' if expected else 'helper-bound-against-override-policy', model=i, name=n,
                             kind=sorted(cl)[0][0], last_op=last_op)
                elif present:
                    judged[n] = sorted(cl)[0]
            # -- no event method of an event the machine no longer has -----------------------------
            stale = [n for n, v in vars(obj).items() if n not in user and machine_bound(v, ('trigger',)) and
                     getattr(getattr(v.func, '__self__', None), 'name', None) not in m.events]
            if stale:
                self.bad('event-method-of-an-event-the-machine-no-longer-has', model=i, names=sorted(stale), last_op=last_op)
            # -- exactly one is_<state>() is True: the current state's -------------------------
            trues = []
            for s in m.states:
                n = is_name(attr, s)
                if judged.get(n, ('', ''))[0] == 'is':
                    r = outcome(getattr(obj, n))
                    if r != ('ret', s == curname):
                        self.bad('is-helper-wrong', model=i, helper=n, answer=r, current=curname)
                    if r == ('ret', True):
                        trues.append(s)
            if judged.get(is_name(attr, curname), ('', ''))[0] == 'is' and trues != [curname]:
                self.bad('not-exactly-one-is-helper-true', model=i, true_for=trues, current=curname)
            # -- event method == trigger(name) (same result, same state) ----------------------
            trig_ok = judged.get('trigger', ('', ''))[0] == 'triggerFn'
            for e in list(m.events):
                if judged.get(e, ('', ''))[0] != 'event':
                    continue
                setattr(twin, attr, cur)
                a = outcome(getattr(twin, e))
                sa = getattr(twin, attr)
                setattr(twin, attr, cur)
                b = outcome(twin.trigger, e) if trig_ok else outcome(twin_m._get_trigger, twin, e)
                sb = getattr(twin, attr)
                setattr(twin, attr, cur)
                if a != b or sa != sb:
                    self.bad('event-method-differs-from-trigger', model=i, event=e, method=(a, run.sname(sa)),
                             by_name=(b, run.sname(sb)), last_op=last_op)
            # -- to_<state>() ends in that state, from every state -----------------------------
            if auto:
                for s in m.states:
                    n = to_name(attr, s)
                    if n in own_events or judged.get(n, ('', ''))[0] != 'event':
                        continue
                    for src in m.states:
                        twin_m.set_state(run.st(src), twin)
                        r = outcome(getattr(twin, n))
                        end = run.sname(getattr(twin, attr))
                        if r != ('ret', True) or end != s:
                            self.bad('to-helper-does-not-end-in-its-state', model=i, helper=n, source=src, result=r, ends_in=end)
                setattr(twin, attr, cur)
        # -- get_triggers(state) == events that really have a transition from it (fired on the twin)
        before = table_shape(m)
        probe = twin_objs[0]
        keep = getattr(probe, attr)
        fires_from = {}
        for s in m.states:
            listed = m.get_triggers(s)
            if sorted(listed) != sorted(m.get_triggers(m.states[s])):
                self.bad('get_triggers-name-vs-object', state=s)
            fires = []
            for e in list(m.events):
                twin_m.set_state(run.st(s), probe)
                r = outcome(twin_m._get_trigger, probe, e)
                if r != ('raised', 'MachineError'):
                    fires.append(e)
            fires_from[s] = set(fires)
            if sorted(set(listed)) != sorted(fires) or len(listed) != len(set(listed)):
                self.bad('get_triggers-not-exact', state=s, listed=sorted(listed), fire=sorted(fires), last_op=last_op)
            # every listed event owns a transition object leaving `s` (a blocked transition and an event without any
            # transition from `s` both answer False when fired with ignore_invalid_triggers; here they differ)
            ghosts = [e for e in listed if not any(t.source == s for lst in m.events[e].transitions.values() for t in lst)]
            if ghosts:
                self.bad('get_triggers-lists-event-without-transition', state=s, events=ghosts, last_op=last_op)
        setattr(probe, attr, keep)
        # -- get_transitions(trigger, source, dest) == exactly the matching transition objects ----
        table = []
        for e, ev in m.events.items():
            for lst in ev.transitions.values():
                for t in lst:
                    table.append((e, t))
        sel_states = list(m.states) + ['nowhere']
        combos = [(e, src, dst) for e in [''] + list(m.events) + ['nope'] for src in ['*'] + sel_states for dst in ['*'] + sel_states]
        if not full:
            combos = random.Random(len(table) * 31 + len(combos)).sample(combos, min(len(combos), 40))
        for e, src, dst in combos:
            got = m.get_transitions(e, src, dst)
            exp = [t for (ev, t) in table if (not e or ev == e) and (src == '*' or t.source == src)
                   and (dst == '*' or t.dest == dst)]
            if sorted(map(id, got)) != sorted(map(id, exp)):
                self.bad('get_transitions-not-exact', trigger=e, source=src, dest=dst,
                         got=[(t.source, t.dest) for t in got], expected=[(t.source, t.dest) for t in exp])
        # behavioural tie of the table: an event has a transition from s iff get_transitions(e, s) is non-empty
        for s in m.states:
            for e in list(m.events):
                if (e in fires_from[s]) != bool(m.get_transitions(e, run.st(s))):
                    self.bad('get_transitions-vs-firing', event=e, state=s, fires=e in fires_from[s])
        # -- the queries are pure: get_triggers / get_transitions leave the machine's tables as they were
        after = table_shape(m)
        if after != before:
            self.bad('query-changed-the-machine', before=before, after=after, last_op=last_op)


# ---------------------------------------------------------------------------------------------
# one case: run, judge, compare
# ---------------------------------------------------------------------------------------------

def run_case(case, lean_answer):
    """returns (failures [(kind, what, details, signature)], facts for statistics)"""
    run = FlatRun(case)
    fails = []
    facts = {'steps': 0, 'fired': 0, 'errors': 0, 'helpers_called': 0}
    lean = parse_answer(lean_answer, len(case['ops']))
    run.enc_request()      # assigns the user ids the answer refers to
    n_ops = len(case['ops'])
    for k, op in enumerate(case['ops']):
        had = op[0] == 'remove' and op[1] in run.machine.events
        members = [id(x) for x in run.machine.models]
        err, res = run.do(op)
        if had and case['override'] and op[1] not in run.machine.events:
            for i in run.registered:
                run.deleted.setdefault(i, set()).add(op[1])
        facts['steps'] += 1
        facts['errors'] += int(err != 0)
        facts['fired'] += int(res == 2)
        lerr, lres, lsnap = lean[k]
        # correspondence: outcome of the step and the whole machine afterwards (the oracle below still judges this
        # step, so that a change of the code shows up as a failing clause and not only as a disagreement)
        corr = None
        if (err, res) != (lerr, lres):
            corr = ('correspondence', 'step_outcome', {'step': k, 'op': op, 'impl': [err, res], 'model': [lerr, lres]}, None)
        else:
            diff = compare(run, introspect(run), lsnap)
            if diff:
                corr = ('correspondence', 'snapshot', dict(diff, step=k, op=op), None)
        if corr:
            fails.append(corr)
        twin = copy.deepcopy((run.machine, [run.objs[i] for i in run.registered]))
        orc = Oracle(run, twin)
        if op[0] == 'trans' and op[1] == run.attr and err != 1:
            orc.bad('event-named-like-the-state-attribute-accepted', op=op, error_code=err)
        if op[0] in ('model_bad', 'unmodel_bad') and err == 0:
            orc.bad('invalid-call-accepted', op=op)
        if err != 0 and members != [id(x) for x in run.machine.models]:
            # a call that raised leaves the registration as it was
            orc.bad('failed-call-changed-the-registration', op=op, error_code=err,
                    before=len(members), after=len(run.machine.models))
        try:
            orc.check(op, full=(k == n_ops - 1))
        except common.MachineryError:
            raise
        except BaseException as e:  # noqa: an exception while introspecting helpers is itself a finding
            import traceback
            orc.bad('introspection-raised', error=type(e).__name__, where=traceback.format_exc()[-600:])
        if orc.problems:
            for clause, details in orc.problems[:3]:
                fails.append(('monitor', clause, dict(details, step=k), 'C11.flat.' + clause))
            break
        if corr:
            break
        # the model side's callEvent / callTrigger / callIs against the real helpers (on the twin)
        d2 = compare_calls(run, lsnap, twin)
        if d2:
            fails.append(('correspondence', 'helper_calls', dict(d2, step=k, op=op), None))
            break
        facts['helpers_called'] += sum(len(lm['calls']) * 2 + len(lm['is']) for lm in lsnap['models'])
    return fails, facts


def compare(run, snap, lsnap):
    if snap['states'] != lsnap['states']:
        return {'field': 'states', 'impl': snap['states'], 'model': lsnap['states']}
    a = [(e, sorted(ts, key=repr)) for e, ts in snap['events']]
    b = [(e, sorted(ts, key=repr)) for e, ts in lsnap['events']]
    if a != b:
        return {'field': 'events', 'impl': a, 'model': b}
    if [x['id'] for x in snap['models']] != [x['id'] for x in lsnap['models']]:
        return {'field': 'models', 'impl': [x['id'] for x in snap['models']], 'model': [x['id'] for x in lsnap['models']]}
    for x, y in zip(snap['models'], lsnap['models']):
        if x['state'] != y['state']:
            return {'field': 'model-state', 'id': x['id'], 'impl': x['state'], 'model': y['state']}
        xi = sorted(map(repr, x['inst']))
        yi = sorted(map(repr, y['inst']))
        if xi != yi:
            return {'field': 'namespace', 'id': x['id'], 'only_impl': sorted(set(xi) - set(yi)),
                    'only_model': sorted(set(yi) - set(xi))}
    m = run.machine
    trig = [sorted(m.get_triggers(s)) for s in m.states]
    if trig != [sorted(t) for t in lsnap['triggers']]:
        return {'field': 'get_triggers', 'impl': trig, 'model': lsnap['triggers']}
    sizes = []
    sel = ['*'] + list(m.states)
    for e in [''] + list(m.events):
        sizes.append([len(m.get_transitions(e, s, d)) for s in sel for d in sel])
    if sizes != lsnap['sizes']:
        return {'field': 'get_transitions-sizes', 'impl': sizes, 'model': lsnap['sizes']}
    return None


def compare_calls(run, lsnap, twin):
    """what calling each helper does: the Lean model's `callEvent` / `callTrigger` / `callIs` against the real
    attribute on a deep-copied twin"""
    m = run.machine
    if not run.registered:
        return None
    twin_m, twin_objs = twin
    attr = run.attr
    for pos, (i, lm) in enumerate(zip(run.registered, lsnap['models'])):
        twin = twin_objs[pos]
        cur = getattr(twin, attr)

        def real_call(name, want_kind, *args):
            setattr(twin, attr, cur)
            if getattr(twin, name, None) is None and name not in vars(twin) and not hasattr(type(twin), name):
                return ('missing', 0), run.sname(cur)
            if name not in vars(twin) or classify(run, i, name, vars(twin)[name])[0] != want_kind:
                return ('users', 0), run.sname(cur)
            try:
                r = getattr(twin, name)(*args)
                out = ('answer' if want_kind == 'isState' else 'ok', int(bool(r)))
            except BaseException as e:  # noqa
                out = ('error', err_code(e))
            st = run.sname(getattr(twin, attr))
            setattr(twin, attr, cur)
            return out, st
        for (e, _ev), (ca, sa, cb, sb) in zip(list(m.events.items()), lm['calls']):
            ra = real_call(e, 'trigger')
            if ra != (ca, sa):
                return {'field': 'call-event-method', 'id': i, 'event': e, 'impl': ra, 'model': (ca, sa)}
            rb = real_call('trigger', 'triggerFn', e)
            if rb != (cb, sb):
                return {'field': 'call-trigger-by-name', 'id': i, 'event': e, 'impl': rb, 'model': (cb, sb)}
        for s, c in zip(list(m.states), lm['is']):
            r = real_call(is_name(attr, s), 'isState')[0]
            if r != c:
                return {'field': 'call-is-helper', 'id': i, 'state': s, 'impl': r, 'model': c}
    return None
