"""State feature mixins (C19): abstract descriptions, generator, builder for the real classes in /repo,
runner with recording callbacks / attribute inspection, protocol encoder, and the Python oracle that
states each contract of the property directly on the implementation's observations."""
import copy
import hashlib

from . import common

# tag 0 is 'accepted' (Model/Features.lean); prefixes on purpose; and names that collide (as is_<tag>) with
# attributes a State has or may gain: is_final, is_name, is_value, is_timeout
TAGS = ['accepted', 't1', 't12', 'acc', 'final', 'name', 'value', 'timeout']
HOOKS = ['scope', 'h1', 'h2']                 # hook 0 is the default 'scope'
MIXINS = ['Tags', 'Error', 'Volatile', 'Retry']
CLASSES = ['Machine', 'LockedMachine', 'HierarchicalMachine', 'LockedHierarchicalMachine']
SEP = '_'


def is_nested(cls):
    return 'Hierarchical' in cls


# ---------------------------------------------------------------------------------------------
# description helpers (a description is a plain JSON-able dict, see gen())
# ---------------------------------------------------------------------------------------------

def state_names(d):
    return [s['name'] for s in d['states']]


def sidx(d):
    return {s['name']: i for i, s in enumerate(d['states'])}


def ancestors_or_self(name):
    parts = name.split(SEP)
    return [SEP.join(parts[:i]) for i in range(len(parts), 0, -1)]


def expanded_transitions(d):
    """(event, source, dest) with '=' resolved, wildcard-free, plus the auto transitions the machine adds
    (`to_<state>` from every state) when auto_transitions is on."""
    out = []
    for ev, src, dest in d['transitions']:
        out.append((ev, src, src if dest == '=' else dest))
    for parent, ev, src, dest in d.get('local', []):
        # declared inside the parent's state dict, names relative to the parent
        out.append((ev, parent + SEP + src, parent + SEP + dest))
    if d['auto']:
        for t in state_names(d):
            for s in state_names(d):
                out.append(('to_' + t, s, t))
    return out


def has_out(d, name):
    """what `machine.get_triggers(name)` must be non-empty for: a transition whose source is the state
    (flat) or the state or one of its ancestors (hierarchical; transitions declared on the machine or
    inside the parent's state dict)"""
    srcs = set(ancestors_or_self(name)) if is_nested(d['cls']) else {name}
    return any(src in srcs for _ev, src, _dest in expanded_transitions(d))


def eff_tags(s):
    t = list(s.get('tags') or [])
    if s.get('accepted'):
        t.append('accepted')
    return t


def is_edit(h):
    return h[0] == 'T'


def is_trigger(h):
    """history steps: [m, ev] trigger; [m, ev, j] with an on_exit callback (index j) raising; [m, ev, ['e', j]]
    with an on_enter callback raising; [m, ev, ['r', n]] with the entered state's last on_enter callback firing
    the state's own reflexive event again (at most n times, unqueued machine); ev = 'to:<state>' is
    model.to(<state>) on hierarchical machines;
    ['T', state, mode, tags] edit of the public tags list; ['P', m, ev, how] may_ poll;
    ['G', state] machine.get_triggers(state); ['R', state, which] machine.on_<which>_<state>(callback)"""
    return isinstance(h[0], int)


AUX = ('conv', 'reg', 'finalCb')     # callbacks outside the mixins' contracts: only the decorated-vs-plain twin looks


def normalise(d):
    """history entries must name events the machine knows (an unknown name is an AttributeError of the
    model, nobody's contract here); `tags` edits need a machine with Tags/Error and a known state"""
    known = set(ev for ev, _s, _d in expanded_transitions(d))
    tagged = 'Tags' in d['feats'] or 'Error' in d['feats']
    names = set(state_names(d))

    def ok(h):
        if is_edit(h):
            return tagged and h[1] in names
        if h[0] == 'P':
            return h[2] in known and h[1] < d['nmodels']
        if h[0] in ('G', 'R'):
            return h[1] in names
        if h[1].startswith('to:'):
            return is_nested(d['cls']) and h[1][3:] in names
        return h[1] in known
    d = dict(d)
    d.setdefault('local', [])
    d.setdefault('on_exception', False)
    d['local'] = [l for l in d['local'] if is_nested(d['cls']) and l[0] + SEP + l[2] in names and l[0] + SEP + l[3] in names]
    d['history'] = [h for h in d['history'] if ok(h)]
    return d


class TagTracker(object):
    """what each state's public `tags` list holds, with Python's aliasing: a state that was handed a list
    object keeps that very object (so in-place edits show in every state sharing it), a state declared
    accepted=True got a copy; re-assignment gives the state a list of its own."""

    def __init__(self, d):
        self.cell = {}
        shared = {}
        for s in d['states']:
            if s.get('tags') is not None and s.get('tags_ref') and not s.get('accepted'):
                self.cell[s['name']] = shared.setdefault(s['tags_ref'], list(s['tags']))
            else:
                self.cell[s['name']] = eff_tags(s)

    def tags(self, name):
        return self.cell[name]

    def apply(self, name, mode, tags):
        """returns the names of the states whose tags changed"""
        cell = self.cell[name]
        if mode == 'assign':
            self.cell[name] = list(tags)
            return [name]
        if mode == 'append':
            cell.extend(tags)
        else:
            for t in tags:
                if t in cell:
                    cell.remove(t)
        return [n for n, c in self.cell.items() if c is cell]


def fingerprint(d):
    return hashlib.sha1(repr(sorted(d.items())).encode()).hexdigest()[:16]


# ---------------------------------------------------------------------------------------------
# generator
# ---------------------------------------------------------------------------------------------

def gen_feats(rng):
    k = rng.choice([1, 1, 2, 2, 2, 3, 3, 4])
    feats = rng.sample(MIXINS, k)
    # `Tags` before `Error` cannot be linearised (Error subclasses Tags): TypeError at decoration time,
    # recorded in assumptions(); the generator keeps the valid order
    if 'Tags' in feats and 'Error' in feats and feats.index('Tags') < feats.index('Error'):
        i, j = feats.index('Tags'), feats.index('Error')
        feats[i], feats[j] = feats[j], feats[i]
    return feats


def gen_state_args(rng, feats, p_args=0.75):
    s = {}
    if rng.random() > p_args:
        return s
    if 'Tags' in feats or 'Error' in feats:
        if rng.random() < 0.7:
            pool = TAGS[1:] + (['accepted'] if rng.random() < 0.25 else [])
            s['tags'] = sorted(rng.sample(pool, rng.randint(0, min(3, len(pool)))))
    if 'Error' in feats and rng.random() < 0.3:
        s['accepted'] = rng.random() < 0.8
    if 'Volatile' in feats:
        if rng.random() < 0.6:
            s['hook'] = rng.choice(HOOKS)
        if rng.random() < 0.6:
            s['vol'] = rng.choice(['counted', 'other'])
    if 'Retry' in feats and rng.random() < 0.8:
        s['retries'] = rng.choice([0, 1, 1, 2, 2, 3])
        if s['retries'] > 0 or rng.random() < 0.5:
            s['onfail'] = rng.choice(['callable', 'name'])
    return s


def gen(rng, cls=None, probe=None, featureless=False):
    d = {}
    d['cls'] = cls or rng.choice(CLASSES)
    nested = is_nested(d['cls'])
    d['feats'] = gen_feats(rng)
    d['probe'] = (True if nested else rng.random() < 0.5) if probe is None else probe
    d['auto'] = rng.random() < 0.25
    d['ignore'] = rng.random() < 0.3
    d['send_event'] = rng.random() < 0.5
    d['nmodels'] = rng.choice([1, 1, 2, 2, 3])
    d['on_exception'] = rng.random() < 0.25
    d['local'] = []
    p_args = 0.0 if featureless else 0.8
    states = []
    tops = ['A', 'B', 'C', 'D'][:rng.randint(2, 4)]
    for t in tops:
        s = {'name': t, 'n_enter': rng.randint(1, 2), 'n_exit': rng.randint(1, 2)}
        s.update(gen_state_args(rng, d['feats'], p_args))
        states.append(s)
        if nested and rng.random() < 0.5:
            kids = ['a', 'b', 'c'][:rng.randint(1, 3)]
            for k in kids:
                c = {'name': t + SEP + k, 'n_enter': rng.randint(1, 2), 'n_exit': rng.randint(1, 2)}
                c.update(gen_state_args(rng, d['feats'], p_args))
                states.append(c)
            if rng.random() < 0.8:
                s['initial'] = rng.choice(kids)
            if rng.random() < 0.45 and not featureless:
                # transitions declared inside the parent's state dict (names relative to the parent)
                for n in range(rng.randint(1, 2)):
                    src = rng.choice(kids)
                    d['local'].append([t, 'l%d' % n, src, src if rng.random() < 0.7 else rng.choice(kids)])
    if nested and rng.random() < 0.4:
        # a chain of `initial` children three or four levels deep under one top state: its feature states are
        # entered through the initial descent when a transition names the top state (or a level above them)
        top = rng.choice([s for s in states if SEP not in s['name']])
        kids_of_top = [s for s in states if s['name'].startswith(top['name'] + SEP)]
        if not kids_of_top:
            name = top['name']
            for k in ['b', 'c', 'd'][:rng.randint(2, 3)]:
                parent = next(s for s in states if s['name'] == name)
                name = name + SEP + k
                c = {'name': name, 'n_enter': rng.randint(1, 2), 'n_exit': rng.randint(1, 2)}
                c.update(gen_state_args(rng, d['feats'], p_args))
                parent['initial'] = k
                states.insert(states.index(parent) + 1, c)
                if rng.random() < 0.4:
                    sib = {'name': parent['name'] + SEP + 'x', 'n_enter': 1, 'n_exit': 1}
                    sib.update(gen_state_args(rng, d['feats'], p_args))
                    states.append(sib)
            # keep parents before children
            states.sort(key=lambda s: tops.index(s['name'].split(SEP)[0]))
    if not featureless:
        for s in states:
            if rng.random() < 0.25:
                s['final'] = rng.random() < 0.8
    if featureless:
        # the conventions of the undecorated class that decoration has to keep: final states and on_final
        # callbacks, model methods on_enter_/on_exit_/on_final_<state>, machine.on_<callback>_<state>(f)
        for s in states:
            if rng.random() < 0.3:
                s['final'] = True
            if rng.random() < 0.5:
                s['n_final'] = rng.randint(1, 2)
            if rng.random() < 0.5:
                s['conv'] = sorted(rng.sample(['enter', 'exit', 'final'], rng.randint(1, 3)))
    if not featureless and ('Tags' in d['feats'] or 'Error' in d['feats']) and rng.random() < 0.12 and len(states) > 1:
        # a caller who reuses one tags list for several states
        sharers = rng.sample(states, rng.randint(2, min(3, len(states))))
        content = sorted(rng.sample(TAGS[1:], rng.randint(0, 2)))
        for s in sharers:
            s['tags'] = list(content)
            s['tags_ref'] = 'L0'
        if 'Error' in d['feats'] and rng.random() < 0.6:
            sharers[0]['accepted'] = True
    d['states'] = states
    names = [s['name'] for s in states]
    d['initial'] = rng.choice(tops)
    if not featureless:
        # how a state is declared: inside the states list (default), later by its FULL-PATH name with the feature
        # arguments as keyword arguments (`add_states('P_c', tags=..., retries=...)`), or later inside the
        # parent's scope (`with machine('P'): machine.add_states('c', ...)`) — all three must behave alike
        for s in states:
            leaf = not any(o['name'].startswith(s['name'] + SEP) for o in states)
            if leaf and s['name'] != d['initial'] and rng.random() < 0.2:
                s['decl'] = rng.choice(['path', 'path', 'scoped']) if SEP in s['name'] else 'path'
    trans = []
    events = ['e%d' % i for i in range(rng.randint(1, 4))]
    retry_states = [s['name'] for s in states if s.get('retries')]
    for ev in events:
        for _ in range(rng.randint(1, 3)):
            src = rng.choice(names)
            r = rng.random()
            if r < 0.3:
                dest = '='
            elif r < 0.37:
                dest = None
            else:
                dest = rng.choice(names)
            trans.append([ev, src, dest])
    for rs in retry_states:
        if rng.random() < 0.85:
            trans.append([rng.choice(events), rs, rng.choice(['=', rs])])
        if nested and SEP in rs and rng.random() < 0.35 and not featureless:
            par, kid = rs.rsplit(SEP, 1)
            d['local'].append([par, 'l%d' % rng.randint(0, 1), kid, kid])
    seenl = set()
    d['local'] = [l for l in d['local'] if (l[0], l[1], l[2]) not in seenl and not seenl.add((l[0], l[1], l[2]))]
    if featureless and 'Error' in d['feats'] and not d['auto']:
        # every state of an Error machine is subject to the Error contract, argument-free or not;
        # the decorated-vs-plain comparison is about states the contract does not single out
        for n in names:
            if not any(src == n for _e, src, _d in trans):
                trans.append([rng.choice(events), n, rng.choice(names)])
    # first matching transition per (event, source) wins and there are no conditions: drop shadowed ones
    seen = set()
    d['transitions'] = []
    for ev, src, dest in trans:
        if (ev, src) not in seen:
            seen.add((ev, src))
            d['transitions'].append([ev, src, dest])
    if 'Error' in d['feats'] and not featureless and rng.random() < 0.6:
        # a dead end that is reachable: the Error contract's interesting case
        dead = rng.choice([n for n in names if n != d['initial']] or names)
        kept = [t for t in d['transitions'] if t[1] not in ancestors_or_self(dead)]
        if not any(t[2] == dead for t in kept):
            src = rng.choice([n for n in names if n not in ancestors_or_self(dead) and not n.startswith(dead + SEP)]
                             or [d['initial']])
            ev = rng.choice(events)
            kept = [t for t in kept if (t[0], t[1]) != (ev, src)] + [[ev, src, dead]]
        d['transitions'] = kept
        d['auto'] = d['auto'] and rng.random() < 0.3
    by = {s['name']: s for s in states}

    def descend(name):
        while by[name].get('initial'):
            name = name + SEP + by[name]['initial']
        return name
    tr = expanded_transitions(d)
    if not tr:
        d['transitions'] = [[events[0], d['initial'], '=']]
        tr = expanded_transitions(d)
    events = [e for e in events if any(t[0] == e for t in tr)] + sorted(set(l[1] for l in d['local']))
    evs = events + (['to_' + rng.choice(names)] if d['auto'] else [])
    cur = [descend(d['initial']) if nested else d['initial'] for _ in range(d['nmodels'])]

    def pick(m):
        scope = ancestors_or_self(cur[m]) if nested else [cur[m]]
        ok = [(e, sr, de) for e, sr, de in tr if sr in scope and e in evs]
        if ok and rng.random() < 0.8:
            # prefer what the current state can do (tracking is approximate on hierarchical machines)
            cand = [t for t in ok if t[2] == t[1]] if rng.random() < 0.4 else ok
            return rng.choice(cand or ok)[0]
        return rng.choice(evs)

    def advance(m, ev):
        scope = ancestors_or_self(cur[m]) if nested else [cur[m]]
        for sc in scope:
            t = next((t for t in tr if t[0] == ev and t[1] == sc), None)
            if t is not None:
                if t[2] is not None:
                    cur[m] = descend(t[2]) if nested else t[2]
                return
    tagged = ('Tags' in d['feats'] or 'Error' in d['feats']) and not featureless

    def edit():
        # the public `tags` list of a built state is edited between triggers
        name = rng.choice(names)
        mode = rng.choice(['assign', 'append', 'remove', 'remove'])
        if mode == 'assign':
            return ['T', name, mode, sorted(rng.sample(TAGS, rng.randint(0, 2)))]
        return ['T', name, mode, [rng.choice(TAGS[:1] * 2 + TAGS)]]

    p_poll = 0.3 if ('Error' in d['feats'] and not featureless) else 0.08

    def one(m, ev):
        if featureless and rng.random() < 0.12:
            hist.append(['R', rng.choice(names), rng.choice(['enter', 'exit', 'final', 'final'])])
        r = rng.random()
        reflexive = [t for t in tr if t[1] == t[2] and t[1] == cur[m] and by[cur[m]].get('retries')]
        if r < 0.10:
            # an on_exit callback of the state being left raises (index of the raising callback)
            hist.append([m, ev, rng.randint(0, 1)])
        elif r < 0.20:
            # an on_enter callback of the state being entered raises; the caller carries on (retries)
            hist.append([m, ev, ['e', rng.randint(0, 1)]])
            advance(m, ev)
        elif r < 0.30 and d['probe'] and not nested and reflexive:
            # the state's own enter callback fires the reflexive event again (unqueued: nested processing)
            hist.append([m, reflexive[0][0], ['r', rng.randint(2, 6)]])
        elif r < 0.38 and nested:
            name = rng.choice(names)
            hist.append([m, 'to:' + name])
            cur[m] = descend(name)
        else:
            hist.append([m, ev])
            advance(m, ev)
        if tagged and rng.random() < 0.15:
            hist.append(edit())
        if rng.random() < p_poll:
            # a pure query in between: may_<event>() / may_trigger(event) of a model, or get_triggers(state)
            r = rng.random()
            if r < 0.8:
                hist.append(['P', m if rng.random() < 0.7 else rng.randrange(d['nmodels']), rng.choice(evs),
                             rng.choice(['may_', 'may_trigger'])])
            else:
                hist.append(['G', rng.choice(names)])
    hist = []
    n = rng.randint(3, 14)
    while len(hist) < n:
        m = rng.randrange(d['nmodels'])
        ev = pick(m)
        for _ in range(rng.choice([1, 1, 1, 2, 3, 5])):
            one(m, ev)
            if rng.random() < 0.25 and d['nmodels'] > 1:
                m2 = rng.randrange(d['nmodels'])
                one(m2, pick(m2))
    d['history'] = hist[:24]
    return normalise(d)


# ---------------------------------------------------------------------------------------------
# realisation on the real classes
# ---------------------------------------------------------------------------------------------

class Log(object):
    def __init__(self):
        self.items = []
        self.handled = []       # exceptions the machine's on_exception handler was given
        self.objs = []          # every volatile object ever observed, kept alive (ids are never reused)

    def objnum(self, o):
        if o is None:
            return None
        for i, x in enumerate(self.objs):
            if x is o:
                return i
        self.objs.append(o)
        return len(self.objs) - 1

    def snap(self, model):
        return tuple(self.objnum(getattr(model, h, None)) for h in HOOKS)


class Counted(object):
    """a user supplied `volatile=` class"""
    made = 0

    def __init__(self):
        Counted.made += 1


class OtherObj(object):
    """another user supplied `volatile=` class"""


class Veto(Exception):
    """raised by an on_exit recorder when the harness armed the model's veto"""


class EnterVeto(Exception):
    """raised by an on_enter recorder when the harness armed it"""


class ModelObj(object):
    def __init__(self, idx, log, names):
        self._idx = idx
        self._log = log
        self._names = names
        self._veto = None       # index of the on_exit callback that raises during the next exit
        self._eveto = None      # index of the on_enter callback that raises during the next entry
        self._reenter = None    # [event, budget, state index]: re-entrant self re-entries from the enter callback

    def __getattr__(self, name):
        # on_failure given as the *name* of a model method: `failcb<state index>`
        if name.startswith('failcb'):
            s = int(name[6:])

            def failcb(*args, **kwargs):
                self._log.items.append(('failure', s, self._idx, 0, self._log.snap(self)))
            return failcb
        raise AttributeError(name)


def _model_of(models, args):
    a = args[0]
    if hasattr(a, 'model') and hasattr(a, 'args'):      # EventData (send_event=True)
        return a.model
    return models[a]


def make_recorder(log, models, kind, s, j, last=0):
    def rec(*args, **kwargs):
        m = _model_of(models, args)
        if kind == 'exitCb' and m._veto is not None and j >= min(m._veto, last):
            m._veto = None
            log.items.append(('exitRaise', s, m._idx, j, log.snap(m)))
            raise Veto()
        if kind == 'enterCb' and m._eveto is not None and j >= min(m._eveto, last):
            m._eveto = None
            log.items.append(('enterRaise', s, m._idx, j, log.snap(m)))
            raise EnterVeto()
        log.items.append((kind, s, m._idx, j, log.snap(m)))
        if kind == 'enterCb' and j == last and m._reenter and m._reenter[1] > 0 and m._reenter[2] == s:
            # re-entrant: the state's own enter callback fires its reflexive event again
            m._reenter[1] -= 1
            m.trigger(m._reenter[0], m._idx)
    return rec


def realise(d):
    """build the (decorated) machine of a description; returns (machine, models, log)"""
    import transitions
    from transitions.core import State
    from transitions.extensions import LockedMachine, HierarchicalMachine, LockedHierarchicalMachine
    from transitions.extensions import states as st_mod
    base = {'Machine': transitions.Machine, 'LockedMachine': LockedMachine,
            'HierarchicalMachine': HierarchicalMachine,
            'LockedHierarchicalMachine': LockedHierarchicalMachine}[d['cls']]
    log = Log()
    idx = sidx(d)
    models = []

    class Probe(State):
        """a user defined feature placed first: sees every enter/exit the engine issues"""

        def enter(self, event_data):
            # the source exactly as Retry.enter reads it (a name; relative for locally declared transitions)
            log.items.append(('op_enter', idx.get(self.name, -1), event_data.model._idx,
                              event_data.transition.source))
            super(Probe, self).enter(event_data)

        def exit(self, event_data):
            log.items.append(('op_exit', idx.get(self.name, -1), event_data.model._idx))
            super(Probe, self).exit(event_data)

    feats = [getattr(st_mod, f) for f in d['feats']]
    if d['probe']:
        feats = [Probe] + feats
    if feats:
        @st_mod.add_state_features(*feats)
        class Custom(base):
            pass
    else:
        class Custom(base):
            pass
    # model methods picked up by naming convention (on_enter_<state>, on_exit_<state>, on_final_<state>)
    methods = {}
    for s in d['states']:
        for which in s.get('conv', []):
            def conv(self, *args, _s=idx[s['name']], _w=which, **kwargs):
                log.items.append(('conv', _s, self._idx, _w, None))
            methods['on_%s_%s' % (which, s['name'])] = conv
    model_cls = type('ConvModel', (ModelObj,), methods) if methods else ModelObj
    models.extend(model_cls(i, log, idx) for i in range(d['nmodels']))

    lists = {}
    edited = set(h[1] for h in d.get('history', []) if is_edit(h))

    def sdef(s):
        i = idx[s['name']]
        o = {'name': s['name'].split(SEP)[-1],
             'on_enter': [make_recorder(log, models, 'enterCb', i, j, s['n_enter'] - 1) for j in range(s['n_enter'])],
             'on_exit': [make_recorder(log, models, 'exitCb', i, j, s['n_exit'] - 1) for j in range(s['n_exit'])]}
        if s.get('final'):
            o['final'] = True
        if s.get('n_final') and is_nested(d['cls']):
            o['on_final'] = [make_recorder(log, models, 'finalCb', i, j) for j in range(s['n_final'])]
        if s.get('tags') is not None:
            # states with the same 'tags_ref' are handed one and the same list object
            o['tags'] = lists.setdefault(s['tags_ref'], list(s['tags'])) if s.get('tags_ref') else list(s['tags'])
            # `Tags` only ever asks `item in self.tags`: any collection is a legal argument.  States whose tags are
            # neither shared, nor edited by the history, nor extended by Error(accepted=True) get a tuple / set /
            # frozenset instead of a list (by position)
            if not s.get('tags_ref') and not s.get('accepted') and s['name'] not in edited:
                o['tags'] = (list, tuple, set, frozenset)[(i + len(s['tags'])) % 4](s['tags'])
        if s.get('accepted') is not None:
            o['accepted'] = s['accepted']
        if s.get('hook') is not None:
            o['hook'] = s['hook']
        if s.get('vol') is not None:
            o['volatile'] = {'counted': Counted, 'other': OtherObj}[s['vol']]
        if s.get('retries') is not None:
            o['retries'] = s['retries']
        if s.get('onfail') == 'callable':
            o['on_failure'] = make_recorder(log, models, 'failure', i, 0)
        elif s.get('onfail') == 'name':
            o['on_failure'] = 'failcb%d' % i
        return o

    defs = []
    by_name = {}
    # states declared after construction: by full-path string + keyword arguments, or inside the parent's scope
    blocked = set([d['initial']] + [l[0] + SEP + x for l in d.get('local', []) for x in (l[2], l[3])])
    late = []
    for s in d['states']:
        o = sdef(s)
        by_name[s['name']] = o
        par = s['name'].rsplit(SEP, 1)[0] if SEP in s['name'] else None
        is_initial = par is not None and next(x for x in d['states'] if x['name'] == par).get('initial') == o['name']
        has_kids = any(x['name'].startswith(s['name'] + SEP) for x in d['states'])
        if s.get('decl') and s['name'] not in blocked and not is_initial and not has_kids and not s.get('conv') \
                and (par is None or is_nested(d['cls'])):
            late.append((s, o, par))
            continue
        if SEP in s['name']:
            by_name[s['name'].rsplit(SEP, 1)[0]].setdefault('children', []).append(o)
        else:
            defs.append(o)
        if s.get('initial'):
            o['initial'] = s['initial']
    for parent, ev, src, dest in d.get('local', []):
        by_name[parent].setdefault('transitions', []).append([ev, src, dest])
    kwargs = {}
    if d.get('on_exception'):
        def on_exc(*args, **kwargs):
            log.handled.append(1)
        kwargs['on_exception'] = on_exc
    if any(s.get('n_final') for s in d['states']):
        kwargs['on_final'] = make_recorder(log, models, 'finalCb', len(d['states']), 0)
    machine = Custom(model=models, states=defs, transitions=None if late else [list(t) for t in d['transitions']],
                     initial=d['initial'], auto_transitions=d['auto'],
                     ignore_invalid_triggers=d['ignore'], send_event=d['send_event'], **kwargs)
    for s, o, par in late:
        kw = {k: v for k, v in o.items() if k != 'name'}
        if s['decl'] == 'scoped' and par is not None:
            import contextlib
            with contextlib.ExitStack() as stack:
                for level in par.split(SEP):        # one scope per level (machine('A_b') would only enter 'A')
                    stack.enter_context(machine(level))
                machine.add_states(o['name'], **kw)
        else:
            machine.add_states(s['name'], **kw)         # full-path name, feature arguments as keywords
    if late:
        machine.add_transitions([list(t) for t in d['transitions']])
    return machine, models, log


class Run(object):
    """observations of one case"""

    def __init__(self):
        self.tags = None        # state index -> {tag: value | 'AttributeError'}
        self.steps = []         # dicts: items, result, post (per model: (state index, hook snapshot))
        self.initial_post = None
        self.exc = None


def read_tags(d, machine):
    out = {}
    for i, s in enumerate(d['states']):
        st = machine.get_state(s['name'])
        row = {}
        for t in TAGS:
            try:
                row[t] = getattr(st, 'is_' + t)
            except AttributeError:
                row[t] = 'AttributeError'
        out[i] = row
    return out


def execute(d):
    from transitions.core import MachineError
    r = Run()
    r.build_error = None
    try:
        machine, models, log = realise(d)
    except Exception as e:          # a valid decorator order / argument set must build
        r.build_error = '%s: %s' % (type(e).__name__, e)
        r.tags = r.tags_after = {}
        r.initial_post = []
        r.vol_classes = []
        return r
    idx = sidx(d)
    r.tags = read_tags(d, machine)
    # what a state of the undecorated class answers (normally: no such attribute)
    r.plain_tags = {}
    for fin in (False, True):
        plain = type(machine).__mro__[1].state_cls(name='plain', final=fin)
        for t in TAGS:
            try:
                r.plain_tags[(fin, t)] = getattr(plain, 'is_' + t)
            except AttributeError:
                r.plain_tags[(fin, t)] = 'AttributeError'

    def post():
        return [(idx.get(m.state, -1), log.snap(m)) for m in models]
    r.initial_post = post()

    def kind_of(e):
        return 'ME' if isinstance(e, MachineError) else 'veto' if isinstance(e, Veto) else \
            'eveto' if isinstance(e, EnterVeto) else 'exc:' + type(e).__name__
    for h in d['history']:
        del log.items[:]
        del log.handled[:]
        if is_edit(h):
            st = machine.get_state(h[1])
            if h[2] == 'assign':
                st.tags = list(h[3])
            elif h[2] == 'append':
                st.tags.extend(h[3])
            else:
                for t in h[3]:
                    if t in st.tags:
                        st.tags.remove(t)
            r.steps.append({'items': [], 'result': 'edit', 'post': post(), 'tags': read_tags(d, machine)})
            continue
        if not is_trigger(h):
            try:
                if h[0] == 'P':
                    m = models[h[1]]
                    res = getattr(m, 'may_' + h[2])(h[1]) if h[3] == 'may_' else m.may_trigger(h[2], h[1])
                    result = 'may:true' if res is True else 'may:false' if res is False else 'may:%r' % (res,)
                elif h[0] == 'G':
                    result = 'triggers:' + ','.join(sorted(machine.get_triggers(h[1])))
                else:
                    getattr(machine, 'on_%s_%s' % (h[2], h[1]))(make_recorder(log, models, 'reg', idx[h[1]], h[2]))
                    result = 'registered'
            except AttributeError:
                result = 'AttributeError'
            except Exception as e:
                result = 'exc:' + type(e).__name__
            r.steps.append({'items': [it for it in log.items if it[0] not in AUX], 'all': list(log.items),
                            'result': result, 'post': post()})
            if result.startswith('exc:'):
                break
            continue
        mi, ev = h[0], h[1]
        arm = h[2] if len(h) > 2 else None
        models[mi]._veto = arm if isinstance(arm, int) else None
        models[mi]._eveto = arm[1] if isinstance(arm, list) and arm[0] == 'e' else None
        models[mi]._reenter = None
        if isinstance(arm, list) and arm[0] == 'r':
            # only a true reflexive transition of the state the model is in is fired again
            cur = models[mi].state
            if any(e == ev and sr == cur and de == cur for e, sr, de in expanded_transitions(d)):
                models[mi]._reenter = [ev, arm[1], idx[cur]]
        res = 'raised'
        try:
            if ev.startswith('to:'):
                models[mi].to(ev[3:], mi)       # to_state returns nothing
                res = True
            else:
                res = models[mi].trigger(ev, mi)
            result = 'true' if res is True else ('false' if res is False else 'other:%r' % (res,))
        except Exception as e:      # MachineError and the harness's Veto are expected; anything else is not
            result = kind_of(e)
        models[mi]._veto = models[mi]._eveto = models[mi]._reenter = None
        handled = False
        if log.handled:
            # the machine's on_exception handler took the exception (the trigger then returns a falsy value):
            # a Veto when an on_exit recorder raised, else the MachineError of an invalid trigger / Error state
            handled = True
            vetoed = any(it[0] == 'exitRaise' for it in log.items)
            evetoed = any(it[0] == 'enterRaise' for it in log.items)
            result = ('veto' if vetoed else 'eveto' if evetoed else 'ME') if (len(log.handled) == 1 and not res) else \
                'exc:handler(%d,%s)' % (len(log.handled), result)
        r.steps.append({'items': [it for it in log.items if it[0] not in AUX], 'all': list(log.items),
                        'result': result, 'handled': handled, 'post': post()})
        if result.startswith('exc:'):
            break
    r.tags_after = read_tags(d, machine)
    r.vol_classes = _vol_classes(d, log)
    return r


def _vol_classes(d, log):
    from transitions.extensions.states import VolatileObject
    out = []
    for o in log.objs:
        out.append('counted' if type(o) is Counted else 'other' if type(o) is OtherObj
                   else 'default' if type(o) is VolatileObject else 'foreign')
    return out


# ---------------------------------------------------------------------------------------------
# protocol
# ---------------------------------------------------------------------------------------------

def enc_states(d):
    """states (the `tags=` list is a reference into the heap of the caller's list objects: states that
    carry the same 'tags_ref' were handed one and the same list) followed by the heap"""
    out = [len(d['states'])]
    heap = []
    refs = {}
    for i, s in enumerate(d['states']):
        if s.get('tags') is None:
            ref = 0
        else:
            key = s.get('tags_ref') or ('own', i)
            if key not in refs:
                refs[key] = len(heap)
                heap.append([TAGS.index(t) for t in s['tags']])
            ref = refs[key] + 1
        out += [i, ref, 1 if s.get('accepted') else 0, HOOKS.index(s.get('hook') or 'scope'),
                s.get('retries') or 0, 1 if has_out(d, s['name']) else 0]
    out.append(len(heap))
    for h in heap:
        out += [len(h)] + h
    return out


def enc_feats(d):
    return [len(d['feats'])] + [MIXINS.index(f) for f in d['feats']]


def resolve_source(d, raw, pre_state):
    """full name of a transition source as written in its declaration: itself when it is a full state name,
    otherwise relative to the enclosing scope of the state the model was in — what `Retry.enter` compares
    with the state's scoped name (`separator.join(machine.prefix_path + [transition.source])`)"""
    names = set(state_names(d))
    if raw in names:
        return raw
    for a in ancestors_or_self(pre_state or ''):
        if a + SEP + raw in names:
            return a + SEP + raw
        par = a.rsplit(SEP, 1)[0] if SEP in a else None
        if par and par + SEP + raw in names:
            return par + SEP + raw
    return raw


def trigger_steps(d, run):
    """[(history index, step, tags edits made since the previous trigger as [(state index, [tag indices])])]"""
    idx = sidx(d)
    tr = TagTracker(d)
    out = []
    pending = {}
    for n, (h, st) in enumerate(zip(d['history'], run.steps)):
        if is_edit(h):
            for name in tr.apply(h[1], h[2], h[3]):
                pending[idx[name]] = [TAGS.index(t) for t in tr.tags(name)]
        elif is_trigger(h):
            out.append((n, st, sorted(pending.items())))
            pending = {}
    return out


def groups_of(d, run):
    """the ops the probe saw, per trigger: (kind 0 enter | 1 exit | 2 exit whose callback raised, state, model,
    full name of the transition's source)"""
    idx = sidx(d)
    names = state_names(d)
    unknown = len(names)
    gs = []
    pre = [s for s, _h in run.initial_post]
    for st in run.steps:
        g = []
        for it in st['items']:
            if it[0] == 'op_enter':
                src = resolve_source(d, it[3], names[pre[it[2]]] if 0 <= pre[it[2]] < unknown else None)
                g.append((0, it[1] if it[1] >= 0 else unknown, it[2], idx.get(src, unknown)))
            elif it[0] == 'op_exit':
                g.append((1, it[1] if it[1] >= 0 else unknown, it[2], 0))
            elif it[0] == 'exitRaise' and g and g[-1][0] == 1:
                g[-1] = (2,) + g[-1][1:]
            elif it[0] == 'enterRaise' and g and g[-1][0] == 0:
                g[-1] = (3,) + g[-1][1:]
        gs.append(g)
        pre = [s for s, _h in st['post']]
    return gs


def enc_ops(d, run):
    gs = groups_of(d, run)
    ts = trigger_steps(d, run)
    o = enc_feats(d) + [len(HOOKS)] + enc_states(d) + [d['nmodels'], len(ts)]
    for n, _st, edits in ts:
        o.append(len(edits))
        for si, tags in edits:
            o += [si, len(tags)] + tags
        g = gs[n]
        o.append(len(g))
        for op in g:
            o += list(op)
    return o


def event_ids(d):
    evs = []
    for ev, _s, _d in expanded_transitions(d):
        if ev not in evs:
            evs.append(ev)
    for h in d['history']:
        ev = h[1] if is_trigger(h) else h[2] if h[0] == 'P' else None
        if ev is not None and ev not in evs:
            evs.append(ev)
    return {e: i for i, e in enumerate(evs)}


def enc_flat(d):
    idx = sidx(d)
    eid = event_ids(d)
    tr = expanded_transitions(d)
    o = enc_feats(d) + [len(HOOKS)] + enc_states(d) + [len(tr)]
    for ev, src, dest in tr:
        o += [eid[ev], idx[src]] + ([0] if dest is None else [1, idx[dest]])
    steps = []
    tt = TagTracker(d)
    for h in d['history']:
        if is_edit(h):
            for name in tt.apply(h[1], h[2], h[3]):
                tags = [TAGS.index(t) for t in tt.tags(name)]
                steps.append([1, idx[name], len(tags)] + tags)
        elif h[0] == 'P':
            steps.append([2, h[1], eid[h[2]]])
        elif is_trigger(h):
            arm = h[2] if len(h) > 2 else None
            steps.append([0, h[0], eid[h[1]], 1 if isinstance(arm, int) else 0,
                          1 if isinstance(arm, list) and arm[0] == 'e' else 0])
    o += [1 if d['ignore'] else 0, d['nmodels'], idx[d['initial']], len(steps)]
    for st in steps:
        o += st
    return o


def _dec_log(nums, pos):
    n = nums[pos]
    pos += 1
    items = []
    H = len(HOOKS)
    for _ in range(n):
        k = nums[pos]
        if k in (0, 1, 2, 5, 6):
            items.append(({0: 'enterCbs', 1: 'exitCbs', 2: 'failure', 5: 'exitAbort', 6: 'enterAbort'}[k], nums[pos + 1], nums[pos + 2],
                          tuple(x - 1 if x else None for x in nums[pos + 3:pos + 3 + H])))
            pos += 3 + H
        elif k == 3:
            items.append(('raised', nums[pos + 1], nums[pos + 2]))
            pos += 3
        elif k == 4:
            pos += 2            # `created`: not observable as such, identities are compared through snapshots
        else:
            raise common.MachineryError('bad C19 item code %r' % k)
    return items, pos


def dec_ops_answer(ans, d, ngroups):
    if ans == 'bad-input':
        raise common.MachineryError('driver rejected a c19ops request')
    nums = [int(x) for x in ans.split()]
    pos = 0
    H = len(HOOKS)
    out = []
    for _ in range(ngroups):
        items, pos = _dec_log(nums, pos)
        raised = nums[pos]
        pos += 1
        post = []
        for _m in range(d['nmodels']):
            post.append(tuple(x - 1 if x else None for x in nums[pos:pos + H]))
            pos += H
        out.append({'items': items, 'raised': bool(raised), 'post': post})
    if pos != len(nums):
        raise common.MachineryError('trailing data in c19ops answer')
    return out


def dec_flat_answer(ans, d):
    if ans == 'bad-input':
        raise common.MachineryError('driver rejected a c19flat request')
    nums = [int(x) for x in ans.split()]
    pos = 0
    H = len(HOOKS)
    out = []
    for _ in [h for h in d['history'] if is_trigger(h) or h[0] == 'P']:
        items, pos = _dec_log(nums, pos)
        code = nums[pos]
        pos += 1
        post = []
        for _m in range(d['nmodels']):
            post.append((nums[pos], tuple(x - 1 if x else None for x in nums[pos + 1:pos + 1 + H])))
            pos += 1 + H
        out.append({'items': items, 'code': code, 'post': post})
    if pos != len(nums):
        raise common.MachineryError('trailing data in c19flat answer')
    return out


# ---------------------------------------------------------------------------------------------
# canonical form of the implementation's observations (what the model's log talks about)
# ---------------------------------------------------------------------------------------------

def collapse(d, items):
    """recorder calls → model-level observations: the on_enter (on_exit) recorders of a state, all of
    them, in order, with one and the same hook snapshot, are one `enterCbs` (`exitCbs`).  Returns
    (observations, problems)."""
    out = []
    bad = []
    i = 0
    its = [it for it in items if it[0] not in ('op_enter', 'op_exit')]
    while i < len(its):
        kind, s, m, j, snp = its[i]
        if kind == 'failure':
            out.append(('failure', s, m, snp))
            i += 1
            continue
        if kind == 'exitRaise':
            out.append(('exitAbort', s, m, snp))
            i += 1
            continue
        n = d['states'][s]['n_enter' if kind in ('enterCb', 'enterRaise') else 'n_exit'] if 0 <= s < len(d['states']) else 1
        if kind in ('enterCb', 'enterRaise'):
            # an entry whose k-th callback raises: the callbacks were reached (`enterCbs`), one raised (`enterAbort`)
            k = next((q for q in range(i, min(i + n, len(its))) if its[q][0] == 'enterRaise'), None)
            if k is not None and [g[:4] for g in its[i:k + 1]] == \
                    [('enterCb', s, m, jj) for jj in range(k - i)] + [('enterRaise', s, m, k - i)] \
                    and all(g[4] == snp for g in its[i:k + 1]):
                out.append(('enterCbs', s, m, snp))
                out.append(('enterAbort', s, m, snp))
                i = k + 1
                continue
        if kind == 'exitCb':
            # an exit whose k-th callback raises: callbacks 0..k-1, then the raising one
            k = next((q for q in range(i, min(i + n, len(its))) if its[q][0] == 'exitRaise'), None)
            if k is not None and [g[:4] for g in its[i:k + 1]] == \
                    [('exitCb', s, m, jj) for jj in range(k - i)] + [('exitRaise', s, m, k - i)] \
                    and all(g[4] == snp for g in its[i:k + 1]):
                out.append(('exitAbort', s, m, snp))
                i = k + 1
                continue
        grp = its[i:i + n]
        if [g[:4] for g in grp] != [(kind, s, m, jj) for jj in range(n)] or any(g[4] != snp for g in grp):
            bad.append('callbacks of state %s not run once each, in order: %r' % (s, [g[:4] for g in grp]))
            out.append((kind + '?', s, m, snp))
            i += 1
            continue
        out.append(('enterCbs' if kind == 'enterCb' else 'exitCbs', s, m, snp))
        i += n
    return out, bad


class Renumber(object):
    """object identities in order of first appearance"""

    def __init__(self):
        self.m = {}

    def __call__(self, snp):
        out = []
        for x in snp:
            if x is None:
                out.append(None)
            else:
                out.append(self.m.setdefault(x, len(self.m)))
        return tuple(out)


def canon_steps(steps, with_state):
    rn = Renumber()
    out = []
    for st in steps:
        items = []
        for it in st['items']:
            if it[0] == 'raised':
                continue
            items.append(it[:3] + (rn(it[3]),))
        if with_state:
            post = [(s, rn(h)) for s, h in st['post']]
        else:
            post = [rn(h) for h in st['post']]
        out.append((items, post))
    return out


def compare_ops(d, run, model):
    """op-level correspondence: implementation observations vs `runGroup` of the Lean model on the ops the
    probe saw.  Returns None or a details dict."""
    impl = []
    groups = groups_of(d, run)
    ts = trigger_steps(d, run)
    for n, st, _e in ts:
        obs, bad = collapse(d, st['items'])
        if bad:
            return {'step': n, 'problem': bad[0]}
        impl.append({'items': obs, 'post': [h for _s, h in st['post']]})
    ci = canon_steps(impl, False)
    cm = canon_steps(model, False)
    for k, (a, b) in enumerate(zip(ci, cm)):
        n, st, _e = ts[k]
        raised_impl = st['result'] == 'ME' and len(groups[n]) > 0
        if a != b or raised_impl != model[k]['raised']:
            return {'step': n, 'trigger': d['history'][n], 'impl': repr(a), 'model': repr(b),
                    'impl_result': st['result'], 'model_raised': model[k]['raised']}
    if len(ci) != len(cm):
        return {'step': len(run.steps), 'problem': 'implementation stopped early: %s' % run.steps[-1]['result']}
    return None


def compare_flat(d, run, model):
    impl = []
    # the flat model answers for triggers and for may_ polls
    ts = [(n, st, None) for n, (h, st) in enumerate(zip(d['history'], run.steps)) if is_trigger(h) or h[0] == 'P']
    for n, st, _e in ts:
        obs, bad = collapse(d, st['items'])
        if bad:
            return {'step': n, 'problem': bad[0]}
        impl.append({'items': obs, 'post': st['post']})
    ci = canon_steps(impl, True)
    cm = canon_steps(model, True)
    codes = {0: 'true', 1: 'false', 2: 'ME', 3: 'ME', 4: 'veto', 5: 'eveto', 10: 'may:false', 11: 'may:true'}
    for k, (a, b) in enumerate(zip(ci, cm)):
        n, st, _e = ts[k]
        if a != b or st['result'] != codes[model[k]['code']]:
            return {'step': n, 'trigger': d['history'][n], 'impl': repr(a), 'model': repr(b),
                    'impl_result': st['result'], 'model_result': codes[model[k]['code']]}
    if len(ci) != len(cm) and len(ci) < len(cm) and not run.steps[-1]['result'].startswith('exc:'):
        return {'step': len(run.steps), 'problem': 'step count differs'}
    return None


# ---------------------------------------------------------------------------------------------
# the oracle: each contract of the statement, read directly off the implementation's observations
# ---------------------------------------------------------------------------------------------

def oracle_tags(d, run):
    """`is_<tag>` is True exactly for the state's tags (+ 'accepted' when accepted=True) — after construction,
    after every trigger and after every edit of a public `tags` list (with Python's aliasing of shared list
    objects); on a machine without Tags/Error a state answers what a state of the undecorated class answers
    (normally: no such attribute)."""
    fails = []
    tagged = 'Tags' in d['feats'] or 'Error' in d['feats']
    tt = TagTracker(d)

    def check(when, table):
        for i, s in enumerate(d['states']):
            for t in TAGS:
                want = (t in tt.tags(s['name'])) if tagged else run.plain_tags[(bool(s.get('final')), t)]
                got = table[i][t]
                if got != want or (tagged and not isinstance(got, bool)):
                    fails.append(('tags', {'state': s['name'], 'tag': t, 'expected': want, 'got': repr(got),
                                           'tags_now': list(tt.tags(s['name'])), 'when': when}))
    if not run.tags:
        return fails
    check('after construction', run.tags)
    for n, (h, st) in enumerate(zip(d['history'], run.steps)):
        if fails:
            break
        if is_edit(h):
            tt.apply(h[1], h[2], h[3])
        if 'tags' in st:
            check('after step %d %r' % (n, h), st['tags'])
    if not fails and len(run.steps) == len(d['history']):
        check('after the history', run.tags_after)
    return fails[:4]


def segments(d, step):
    """split one trigger's log into ops (from the probe) with the recorder items each one produced"""
    segs = []
    for it in step['items']:
        if it[0] in ('op_enter', 'op_exit'):
            segs.append({'op': it, 'items': []})
        elif segs:
            segs[-1]['items'].append(it)
        else:
            segs.append({'op': None, 'items': [it]})
    return segs


def outcome_of(d, seg, last, result):
    """entered | failed | raised | exited | aborted | None (shape violated)"""
    op = seg['op']
    its = seg['items']
    s, m = op[1], op[2]
    sd = d['states'][s]
    if op[0] == 'op_exit':
        want = [('exitCb', s, m, j) for j in range(sd['n_exit'])]
        if [i[:4] for i in its] == want:
            return 'exited'
        if its and its[-1][0] == 'exitRaise' and last and result == 'veto' and \
                [i[:4] for i in its] == want[:len(its) - 1] + [('exitRaise', s, m, len(its) - 1)]:
            return 'aborted'
        return None
    want = [('enterCb', s, m, j) for j in range(sd['n_enter'])]
    if [i[:4] for i in its] == want:
        return 'entered'
    if its and its[-1][0] == 'enterRaise' and last and result == 'eveto' and \
            [i[:4] for i in its] == want[:len(its) - 1] + [('enterRaise', s, m, len(its) - 1)]:
        return 'eaborted'
    if len(its) == 1 and its[0][:3] == ('failure', s, m):
        return 'failed'
    if not its and last and result == 'ME':
        return 'raised'
    return None


def oracle_steps(d, run):
    """needs the ops (probe, or derived on flat machines).  Returns list of (what, details)."""
    fails = []
    feats = d['feats']
    names = state_names(d)
    idx = sidx(d)
    k = {}                                   # (state, model) -> consecutive self re-entries since a foreign entry
    local = {}                               # (state, model) -> a locally declared self re-entry among them
    seen_objs = set()
    tt = TagTracker(d)
    for _s, h in run.initial_post:
        seen_objs.update(x for x in h if x is not None)
    pre = [s for s, _h in run.initial_post]
    for n, step in enumerate(run.steps):
        res = step['result']
        where = {'step': n, 'trigger': d['history'][n]}
        if is_edit(d['history'][n]):
            tt.apply(*d['history'][n][1:4])
            continue
        if not is_trigger(d['history'][n]):
            if res.startswith('exc:') or step['items'] or [s for s, _h in step['post']] != pre:
                fails.append(('query-not-pure', dict(where, result=res, items=[i[:4] for i in step['items']],
                                                     problem='a may_ poll / get_triggers read / callback registration '
                                                             'ran callbacks, moved a model or failed')))
            continue
        armed = len(d['history'][n]) > 2
        if res not in ('true', 'false', 'ME') and not (res in ('veto', 'eveto') and armed):
            fails.append(('unexpected-result', dict(where, result=res)))
            break
        segs = segments(d, step)
        if any(seg['op'] is not None and seg['op'][1] < 0 for seg in segs):
            fails.append(('scoped-name', dict(where, problem='the engine entered/exited a state under a scoped name '
                                              'that is no state of the machine (the features read self.name: Error '
                                              'asks get_triggers(self.name), Retry compares it with the source)')))
            pre = [s for s, _h in step['post']]
            continue
        if segs and segs[0]['op'] is None:
            fails.append(('shape', dict(where, problem='callbacks outside any enter/exit')))
            pre = [s for s, _h in step['post']]
            continue
        outs = []
        for q, seg in enumerate(segs):
            o = outcome_of(d, seg, q == len(segs) - 1, res)
            outs.append(o)
            if o is None:
                fails.append(('shape', dict(where, op=seg['op'], items=[i[:4] for i in seg['items']],
                                            problem='an enter runs all on_enter callbacks in order, or on_failure '
                                                    'once, or raises MachineError; an exit runs all on_exit callbacks '
                                                    'or stops at the one that raises')))
        if None in outs:
            pre = [s for s, _h in step['post']]
            continue
        if res == 'ME' and segs and outs[-1] != 'raised':
            fails.append(('shape', dict(where, problem='MachineError after a completed state change')))
        if res == 'eveto' and (not segs or outs[-1] != 'eaborted'):
            fails.append(('shape', dict(where, problem='exception of an enter callback surfaced elsewhere')))
        if res == 'veto' and (not segs or outs[-1] != 'aborted'):
            fails.append(('shape', dict(where, problem='exception of an exit callback surfaced elsewhere')))
        for q, (seg, o) in enumerate(zip(segs, outs)):
            op = seg['op']
            s, m = op[1], op[2]
            sd = d['states'][s]
            w = dict(where, state=sd['name'], model=m, op=q)
            if op[0] == 'op_enter':
                raw = op[3]
                pre_name = names[pre[m]] if 0 <= pre[m] < len(names) else None
                src = idx.get(resolve_source(d, raw, pre_name), -1)
                is_local = raw not in idx
                # --- Error: MachineError on entry iff no outgoing transition and not accepted
                tags_now = tt.tags(sd['name'])
                want_raise = 'Error' in feats and not has_out(d, sd['name']) and 'accepted' not in tags_now
                # (not judged: model.to(<state>) re-enters a dead end from itself and Retry, placed before Error,
                #  refuses the entry before Error looks at it — order-dependent, mirrored by the model)
                cut_short = o == 'failed' and 'Retry' in feats and 'Error' in feats and \
                    feats.index('Retry') < feats.index('Error')
                if (o == 'raised') != want_raise and not cut_short:
                    fails.append(('error-iff', dict(w, outcome=o, expected_raise=want_raise,
                                                    has_outgoing=has_out(d, sd['name']), tags=list(tags_now))))
                # --- Retry
                r = sd.get('retries') or 0
                if src != s:
                    k[(s, m)] = 0
                    local[(s, m)] = False
                    kk = 0
                else:
                    kk = k.get((s, m))
                    if kk is not None:
                        kk += 1
                        k[(s, m)] = kk
                    local[(s, m)] = local.get((s, m), False) or is_local
                if o == 'raised':
                    # whether an entry Error rejected was counted depends on the decorator order: the count is
                    # unknown until the next entry from another state
                    k[(s, m)] = None
                if 'Retry' not in feats or r == 0:
                    if o == 'failed':
                        fails.append(('retry-exact', dict(w, outcome=o, retries=r, problem='on_failure without a limit')))
                elif want_raise:
                    pass    # a rejecting dead end re-entered through model.to(): which of Error / Retry acts is order-dependent
                elif kk is not None and kk <= r + 1:
                    want = 'failed' if kk == r + 1 else 'entered'
                    # (an entry whose enter callback raised is an attempt like any other: it was let in)
                    if o != want and not (o in ('raised', 'eaborted') and want == 'entered'):
                        fails.append(('retry-exact', dict(w, outcome=o, expected=want, retries=r, self_reentry_no=kk,
                                                          source_as_declared=raw,
                                                          locally_declared=bool(local.get((s, m))))))
                # (kk is None: the model was placed in the state without an entry — not judged;
                #  kk > r + 1: the statement speaks about "the next one" only — not judged)
                # --- Volatile: a fresh object under the hook on every (completed) entry
                if o == 'entered':
                    snp = seg['items'][0][4]
                    if 'Volatile' in feats:
                        h = HOOKS.index(sd.get('hook') or 'scope')
                        obj = snp[h]
                        cls_want = sd.get('vol') or 'default'
                        if obj is None or obj in seen_objs or run.vol_classes[obj] != cls_want:
                            fails.append(('volatile-fresh', dict(w, hook=HOOKS[h], object=obj,
                                                                 seen_before=obj in seen_objs,
                                                                 cls=(run.vol_classes[obj] if obj is not None else None),
                                                                 expected_cls=cls_want)))
                    elif any(x is not None for x in snp):
                        fails.append(('volatile-fresh', dict(w, problem='hook attribute without Volatile')))
            elif o == 'aborted':
                # --- Volatile: the exit did not happen (a callback raised, the model stays in the state):
                #     the model still carries what it carried
                before = seg['items'][-1][4]
                after = step['post'][m][1]
                if after != before:
                    fails.append(('volatile-kept', dict(w, hooks_before=before, hooks_after=after,
                                                        problem='the transition was aborted by a raising on_exit '
                                                                'callback, the model is still in the state but its '
                                                                'hook objects changed')))
                if step['post'][m][0] != pre[m]:
                    fails.append(('shape', dict(w, problem='aborted exit moved the model')))
            else:
                # --- Volatile: removed on exit (looked at in the very next observation of this model)
                h = HOOKS.index(sd.get('hook') or 'scope')
                nxt = None
                if q + 1 < len(segs):
                    nop = segs[q + 1]['op']
                    same_hook = nop[0] == 'op_enter' and \
                        HOOKS.index(d['states'][nop[1]].get('hook') or 'scope') == h
                    if not same_hook and segs[q + 1]['items']:
                        nxt = segs[q + 1]['items'][0][4]
                else:
                    nxt = step['post'][m][1]
                if 'Volatile' in feats and nxt is not None and nxt[h] is not None:
                    fails.append(('volatile-removed', dict(w, hook=HOOKS[h], still=nxt[h])))
            for it in seg['items']:
                seen_objs.update(x for x in it[4] if x is not None)
        for _st, hsnap in step['post']:
            if 'Volatile' not in feats and any(x is not None for x in hsnap):
                fails.append(('volatile-fresh', dict(where, problem='hook attribute without Volatile')))
            seen_objs.update(x for x in hsnap if x is not None)
        pre = [s for s, _h in step['post']]
    return fails


def flat_engine_ops(d, run):
    """flat machines: the ops a plain Machine issues for the history, derived from the description and
    the states the *implementation* reported (exit source, enter dest; nothing for internal / invalid)."""
    idx = sidx(d)
    tr = expanded_transitions(d)
    cur = [s for s, _h in run.initial_post]
    names = state_names(d)
    out = []
    for n, h in enumerate(d['history'][:len(run.steps)]):
        if not is_trigger(h):
            out.append([])
            continue
        m, ev = h[0], h[1]
        t = next(((e, s, dd) for e, s, dd in tr if e == ev and s == names[cur[m]]), None)
        if t is None or t[2] is None:
            out.append([])
        else:
            out.append([('op_exit', idx[t[1]], m), ('op_enter', idx[t[2]], m, t[1])])
        cur = [s for s, _h in run.steps[n]['post']]
    return out


def inject_ops(d, run):
    """flat machine without probe: put the derived ops where a probe would have logged them"""
    steps = []
    for st, ops in zip(run.steps, flat_engine_ops(d, run)):
        items = list(st['items'])
        if ops:
            k = 0
            while k < len(items) and items[k][0] in ('exitCb', 'exitRaise'):
                k += 1
            if any(it[0] == 'exitRaise' for it in items[:k]):
                items = [ops[0]] + items        # the exit was aborted: no entry follows
            else:
                items = [ops[0]] + items[:k] + [ops[1]] + items[k:]
        steps.append(dict(st, items=items))
    r = copy.copy(run)
    r.steps = steps
    return r


def plain_view(run):
    """what an undecorated machine shows: results, states, callback order (no hook attributes)"""
    return [([it[:4] for it in st.get('all', st['items']) if it[0] not in ('op_enter', 'op_exit')], st['result'],
             [s for s, _h in st['post']]) for st in run.steps]


def state_cls_methods(d):
    """(dynamic_methods of the decorated machine's state class, of the undecorated class's), as sorted ids
    0 on_enter, 1 on_exit, 2 on_final, 3 on_timeout, 9 anything else"""
    import transitions
    from transitions.extensions import LockedMachine, HierarchicalMachine, LockedHierarchicalMachine
    from transitions.extensions import states as st_mod
    base = {'Machine': transitions.Machine, 'LockedMachine': LockedMachine,
            'HierarchicalMachine': HierarchicalMachine,
            'LockedHierarchicalMachine': LockedHierarchicalMachine}[d['cls']]
    ids = {'on_enter': 0, 'on_exit': 1, 'on_final': 2, 'on_timeout': 3}

    @st_mod.add_state_features(*[getattr(st_mod, f) for f in d['feats']])
    class Custom(base):
        pass
    return (sorted(set(ids.get(x, 9) for x in Custom.state_cls.dynamic_methods)),
            sorted(set(ids.get(x, 9) for x in base.state_cls.dynamic_methods)))


def shrink_steps(case):
    d = case['desc']

    def mk(nd):
        c = dict(case)
        c['desc'] = nd
        return c
    for i in range(len(d['history'])):
        c = copy.deepcopy(d)
        del c['history'][i]
        if c['history']:
            yield mk(c)
    for i, h in enumerate(d['history']):
        if is_trigger(h) and len(h) > 2:
            c = copy.deepcopy(d)
            c['history'][i] = h[:2]
            yield mk(c)
    for key in ('transitions', 'local'):
        for i in range(len(d.get(key, []))):
            c = copy.deepcopy(d)
            del c[key][i]
            yield mk(c)
    if d['nmodels'] > 1 and all((h[0] if is_trigger(h) else h[1] if h[0] == 'P' else 0) < d['nmodels'] - 1
                                for h in d['history']):
        c = copy.deepcopy(d)
        c['nmodels'] -= 1
        yield mk(c)
    for i, s in enumerate(d['states']):
        for key in ('tags_ref', 'tags', 'accepted', 'hook', 'vol'):
            if key in s:
                c = copy.deepcopy(d)
                del c['states'][i][key]
                if key == 'tags':
                    c['states'][i].pop('tags_ref', None)
                yield mk(c)
        if 'retries' in s:
            c = copy.deepcopy(d)
            del c['states'][i]['retries']
            c['states'][i].pop('onfail', None)
            yield mk(c)
        for key in ('n_enter', 'n_exit'):
            if s[key] > 1:
                c = copy.deepcopy(d)
                c['states'][i][key] = 1
                yield mk(c)
        for key in ('final', 'n_final', 'conv', 'decl'):
            if key in s:
                c = copy.deepcopy(d)
                del c['states'][i][key]
                yield mk(c)
    for flag in ('auto', 'send_event', 'ignore', 'on_exception'):
        if d.get(flag):
            c = copy.deepcopy(d)
            c[flag] = False
            yield mk(c)
