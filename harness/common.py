"""Shared plumbing: paths, the Lean driver process, lake build + audit, evidence, verdicts."""
import json
import os
import random
import re
import subprocess
import sys
import time

VERIF = os.path.dirname(os.path.dirname(os.path.abspath(__file__)))
LEAN = os.path.join(VERIF, 'lean')
REPO = os.environ.get('VERIF_REPO', '/repo')
DRIVER = os.path.join(LEAN, '.lake', 'build', 'bin', 'driver')
# (tools/seedtest.py redirects evidence of runs against patched trees so that committed evidence stays clean)
EVIDENCE = os.environ.get('VERIF_EVIDENCE_DIR') or os.path.join(VERIF, 'evidence')
REPLAYS = os.path.join(VERIF, 'replays')
CORPUS = os.path.join(VERIF, 'corpus')
GUARD = 'TRANSITIONS_VERIF'

ALLOWED_AXIOMS = {'propext', 'Classical.choice', 'Quot.sound'}

# the implementation under test is always /repo's working tree
if REPO not in sys.path:
    sys.path.insert(0, REPO)
os.environ[GUARD] = '1'


class MachineryError(Exception):
    """The checking machinery itself is broken (exit 2) — never a verdict about the code."""


def seed_from_env():
    try:
        return int(os.environ.get('VERIF_SEED', '0'))
    except ValueError:
        return 0


# ---------------------------------------------------------------------------------------------
# Lean side
# ---------------------------------------------------------------------------------------------

def lake_build(targets=()):
    """(Re)build the Lean project. Returns (ok, output)."""
    cmd = ['lake', 'build'] + list(targets)
    p = subprocess.run(cmd, cwd=LEAN, stdout=subprocess.PIPE, stderr=subprocess.STDOUT, text=True)
    return p.returncode == 0, p.stdout


_FORBIDDEN = re.compile(r'\b(sorry|admit|native_decide|bv_decide|implemented_by)\b|^\s*axiom\s|\bunsafe\s|maxHeartbeats\s+0\b')


def _strip_comments(src):
    # remove /- … -/ (nested not used in this project) and -- … line comments
    src = re.sub(r'/-.*?-/', '', src, flags=re.S)
    src = re.sub(r'--.*', '', src)
    return src


def grep_forbidden():
    """Forbidden tokens outside comments in any project Lean file."""
    hits = []
    for root, _dirs, files in os.walk(LEAN):
        if '.lake' in root:
            continue
        for f in files:
            if f.endswith('.lean'):
                path = os.path.join(root, f)
                with open(path) as fh:
                    src = _strip_comments(fh.read())
                for n, line in enumerate(src.splitlines(), 1):
                    if _FORBIDDEN.search(line):
                        hits.append('%s: %s' % (os.path.relpath(path, LEAN), line.strip()))
    return hits


def print_axioms(theorems, imports=('Props',)):
    """Run `#print axioms` on each theorem; return {theorem: [axioms]} (MachineryError on failure)."""
    src = ''.join('import %s\n' % i for i in imports)
    src += ''.join('#print axioms %s\n' % t for t in theorems)
    path = os.path.join(LEAN, '.lake', 'audit_%d.lean' % os.getpid())
    with open(path, 'w') as fh:
        fh.write(src)
    try:
        p = subprocess.run(['lake', 'env', 'lean', path], cwd=LEAN, stdout=subprocess.PIPE,
                           stderr=subprocess.STDOUT, text=True)
    finally:
        os.unlink(path)
    out = p.stdout
    res = {}
    # "'T' depends on axioms: [a, b]"  |  "'T' does not depend on any axioms"
    for m in re.finditer(r"'([^']+)' depends on axioms: \[([^\]]*)\]", out, flags=re.S):
        res[m.group(1)] = [a.strip() for a in m.group(2).replace('\n', ' ').split(',') if a.strip()]
    for m in re.finditer(r"'([^']+)' does not depend on any axioms", out):
        res[m.group(1)] = []
    missing = [t for t in theorems if t not in res]
    return res, missing, out


class Driver(object):
    """The compiled model driver, spoken to over its line protocol."""

    def __init__(self):
        if not os.path.exists(DRIVER):
            raise MachineryError('driver binary missing: %s' % DRIVER)
        self.p = subprocess.Popen([DRIVER], stdin=subprocess.PIPE, stdout=subprocess.PIPE, text=True, bufsize=1)

    def ask(self, kind, nats):
        line = kind + ' ' + ' '.join(str(n) for n in nats) + '\n'
        self.p.stdin.write(line)
        self.p.stdin.flush()
        ans = self.p.stdout.readline()
        if not ans:
            raise MachineryError('driver died on: %s' % line[:200])
        return ans.strip()

    def ask_many(self, requests):
        """requests: list of (kind, nats). Pipelined."""
        return [self.ask(k, n) for k, n in requests]

    def close(self):
        try:
            self.p.stdin.close()
            self.p.wait(timeout=5)
        except Exception:
            self.p.kill()


def batch_driver(requests):
    """Run a whole batch through a fresh driver process (fast path: one write, one read)."""
    if not os.path.exists(DRIVER):
        raise MachineryError('driver binary missing: %s' % DRIVER)
    data = ''.join(k + ' ' + ' '.join(map(str, n)) + '\n' for k, n in requests)
    p = subprocess.run([DRIVER], input=data, stdout=subprocess.PIPE, text=True)
    if p.returncode != 0:
        raise MachineryError('driver exited with %s' % p.returncode)
    out = p.stdout.splitlines()
    if len(out) != len(requests):
        raise MachineryError('driver answered %d lines for %d requests' % (len(out), len(requests)))
    return out


# ---------------------------------------------------------------------------------------------
# trace item codec (mirror of Model/Basic.lean `Item.toNats`)
# ---------------------------------------------------------------------------------------------

SLOTS = ['prepare_event', 'prepare', 'conditions', 'unless', 'before_state_change', 'before', 'on_exit',
         'on_enter', 'on_final', 'after', 'after_state_change', 'finalize_event', 'on_exception',
         'on_timeout', 'on_failure']
SLOT = {n: i for i, n in enumerate(SLOTS)}

EXC_NAMES = ['MachineError', 'AttributeError', 'ValueError', 'User', 'Base', 'Cancelled', 'Other']


def dec_items(nums, pos=0):
    """decode `encItems` output starting at nums[pos]; returns (items, newpos); items are tuples"""
    n = nums[pos]
    pos += 1
    items = []
    for _ in range(n):
        k = nums[pos]
        if k == 0:
            items.append(('call',) + tuple(nums[pos + 1:pos + 6]))
            pos += 6
        elif k == 1:
            items.append(('done', nums[pos + 1]) + tuple(nums[pos + 2:pos + 5]))
            pos += 5
        elif k == 2:
            items.append(('api',) + tuple(nums[pos + 1:pos + 5]))
            pos += 5
        elif k == 3:
            items.append(('ret', nums[pos + 1], nums[pos + 2]))
            pos += 3
        elif k == 4:
            items.append(('raised', nums[pos + 1], nums[pos + 2], nums[pos + 3]))
            pos += 4
        else:
            raise MachineryError('bad item code %r' % k)
    return items, pos


def enc_item(it):
    k = it[0]
    if k == 'call':
        return [0] + list(it[1:])
    if k == 'done':
        return [1] + list(it[1:])
    if k == 'api':
        return [2] + list(it[1:])
    if k == 'ret':
        return [3] + list(it[1:])
    if k == 'raised':
        return [4] + list(it[1:])
    raise MachineryError('bad item %r' % (it,))


def enc_items(items):
    out = [len(items)]
    for it in items:
        out += enc_item(it)
    return out


def show_item(it):
    k = it[0]
    if k == 'call':
        return 'call %s cb%d m%d t%d @s%s' % (SLOTS[it[1]], it[2], it[3], it[4], it[5])
    if k == 'done':
        if it[2] == 0:
            return 'done cb%d -> %s' % (it[1], bool(it[3]))
        return 'done cb%d raises %s(%d)' % (it[1], EXC_NAMES[min(it[3], 6)], it[4])
    if k == 'api':
        return 'api %s t%d m%d e%d' % (['trigger', 'may', 'dispatch', 'remove_model', 'add_model', 'to'][it[1]], it[2], it[3], it[4])
    if k == 'ret':
        return 'ret t%d %s' % (it[1], bool(it[2]))
    if k == 'raised':
        return 'raised t%d %s(%d)' % (it[1], EXC_NAMES[min(it[2], 6)], it[3])
    return repr(it)


# ---------------------------------------------------------------------------------------------
# evidence, verdicts
# ---------------------------------------------------------------------------------------------

def load_known_findings():
    path = os.path.join(VERIF, 'known_findings.json')
    if not os.path.exists(path):
        return []
    with open(path) as fh:
        return json.load(fh).get('findings', [])


def write_replay(prop, name, payload):
    os.makedirs(REPLAYS, exist_ok=True)
    path = os.path.join(REPLAYS, '%s_%s.json' % (prop, name))
    with open(path, 'w') as fh:
        json.dump(payload, fh, indent=1, sort_keys=True, default=str)
    return path


def write_evidence(prop, tier, seed, level, coverage, wall_s, violations, assumptions):
    os.makedirs(EVIDENCE, exist_ok=True)
    ev = {
        'property_id': prop, 'tier': tier, 'seed': seed, 'level': level, 'coverage': coverage,
        'assumptions': assumptions, 'wall_s': round(wall_s, 2), 'violations': violations,
    }
    with open(os.path.join(EVIDENCE, prop + '.json'), 'w') as fh:
        json.dump(ev, fh, indent=1, sort_keys=True, default=str)
    return ev


class Timer(object):
    def __init__(self):
        self.t0 = time.time()

    def elapsed(self):
        return time.time() - self.t0
