"""Virtual clocks for the timeout checks (C17).

Threads: `VirtualTimer` is a drop-in for `threading.Timer` as used by `transitions.extensions.states`
(`Timer(interval, function, args=...)`, `.daemon`, `.start()`, `.cancel()`, `.is_alive()`).  It never
creates a thread: the harness owns a `VirtualClock`, and a started timer fires — synchronously, in the
harness thread — when the clock is told to fire what is due.  `is_alive()` mirrors `threading.Thread`:
true from `start()` until the timer function has returned or the timer was cancelled while waiting
(so it is true *during* the timer function, where `cancel()` has no effect any more).

asyncio: `VirtualLoop` is a `SelectorEventLoop` whose `time()` is the virtual clock.  The loop only
ever blocks in `selector.select(timeout)` when nothing is ready; the wrapped selector then jumps the
virtual clock to the next scheduled handle instead of sleeping, or — when that handle lies beyond the
target the harness asked for — moves the clock to the target and stops the loop.  Times are integers
(stored as ints, compared exactly), no wall-clock time is ever consulted.
"""
import asyncio
import contextlib
import selectors


class VirtualClock(object):
    def __init__(self):
        self.now = 0
        self.timers = []        # every VirtualTimer started under this clock, in start order
        self.on_tick = None     # callback(now) invoked after the clock moved by one unit

    def tick(self):
        """move the clock by one unit; nothing fires"""
        self.now += 1
        if self.on_tick:
            self.on_tick(self.now)

    def fire_due(self):
        """fire every waiting timer whose deadline has been reached, in start order; timers started
        while firing have a later deadline (interval >= 1) and are not considered"""
        n = len(self.timers)
        for i in range(n):
            t = self.timers[i]
            if t.state == 'waiting' and t.deadline <= self.now:
                t._fire()

    def pending(self):
        return [t for t in self.timers if t.state == 'waiting']


_CURRENT = [None]


@contextlib.contextmanager
def patched_timer(clock):
    """install VirtualTimer as `transitions.extensions.states.Timer` for the duration of the block"""
    from transitions.extensions import states
    old = states.Timer
    prev = _CURRENT[0]
    _CURRENT[0] = clock
    states.Timer = VirtualTimer
    try:
        yield clock
    finally:
        states.Timer = old
        _CURRENT[0] = prev


class VirtualTimer(object):
    def __init__(self, interval, function, args=None, kwargs=None):
        self.interval = interval
        self.function = function
        self.args = args if args is not None else []
        self.kwargs = kwargs if kwargs is not None else {}
        self.daemon = False
        self.state = 'new'      # new | waiting | running | finished
        self.clock = _CURRENT[0]
        self.deadline = None
        self.error = None

    def start(self):
        if self.state != 'new':
            raise RuntimeError('threads can only be started once')
        self.state = 'waiting'
        self.deadline = self.clock.now + self.interval
        self.clock.timers.append(self)

    def cancel(self):
        # threading.Timer.cancel sets the `finished` event: a waiting timer ends without calling the
        # function, a timer whose function is already running is not affected
        if self.state == 'waiting':
            self.state = 'finished'

    def is_alive(self):
        return self.state in ('waiting', 'running')

    def join(self, timeout=None):
        return None

    def _fire(self):
        self.state = 'running'
        try:
            self.function(*self.args, **self.kwargs)
        except BaseException as err:     # a real Timer thread would hand this to threading.excepthook
            self.error = err
        finally:
            self.state = 'finished'


# ---------------------------------------------------------------------------------------------
# asyncio
# ---------------------------------------------------------------------------------------------

class _JumpSelector(object):
    """Wraps the real selector: a blocking select is replaced by a jump of the virtual clock."""

    def __init__(self, inner, loop_ref):
        self._inner = inner
        self._loop_ref = loop_ref

    def select(self, timeout=None):
        loop = self._loop_ref[0]
        if timeout is not None and timeout <= 0:
            loop._v_busy += 1
            if loop._v_busy > 200000:      # the loop never goes idle: report instead of hanging
                raise RuntimeError('virtual loop did not become idle')
            return self._inner.select(0)
        loop._v_busy = 0
        # the loop is idle: no ready callbacks; `timeout` is the distance to the next scheduled handle
        target = loop._v_target
        nxt = None if timeout is None else loop._v_now + timeout
        if nxt is not None and nxt == int(nxt):
            nxt = int(nxt)
        if nxt is not None and target is not None and nxt <= target:
            loop._v_set(nxt)
        else:
            if target is not None and target > loop._v_now:
                loop._v_set(target)
            loop._v_idle = True
            loop.stop()
        return self._inner.select(0)

    def __getattr__(self, name):
        return getattr(self._inner, name)


class VirtualLoop(asyncio.SelectorEventLoop):
    """SelectorEventLoop under a virtual clock (integers)."""

    def __init__(self):
        ref = [None]
        super().__init__(_JumpSelector(selectors.DefaultSelector(), ref))
        ref[0] = self
        self._v_now = 0
        self._v_target = None
        self._v_idle = False
        self.on_tick = None
        self._v_busy = 0
        self._clock_resolution = 0.25     # integer times: a handle is due iff when <= now

    def time(self):
        return self._v_now

    def _v_set(self, t):
        while self._v_now < t:
            self._v_now = min(t, self._v_now + 1)
            if self.on_tick:
                self.on_tick(self._v_now)

    def settle(self, target=None):
        """run until nothing is ready and nothing is scheduled at or before `target` (default: now);
        the clock ends at `target`"""
        self._v_target = self._v_now if target is None else target
        self._v_idle = False
        self.run_forever()
        if not self._v_idle:
            raise RuntimeError('virtual loop stopped without becoming idle')
        self._v_target = None

    def run_op(self, coro):
        """schedule the coroutine as a task and run the loop until it is idle again at the current
        instant; returns the task"""
        task = self.create_task(coro)
        self.settle()
        return task
