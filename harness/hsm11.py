"""C11, hierarchical machines: case generator, runner on the real `HierarchicalMachine` (default and custom
separators), Python oracle of the property clauses, comparison with the Lean model (`c11hsm`:
`isStateH`, `getTriggersH`, `firesIn`, `isAccessH`, `toAccessH` of lean/Model/Helpers.lean).

A case is a state tree (dict form: children / parallel / initial / local transitions), root transitions and a
history:

    ['model', m]                              machine.add_model(<object m>)
    ['fire', m, e]                            model.trigger(e)
    ['to', m, path]                           model.to(<global name>)        (to_state)
    ['state', parent_path, name]              machine.add_states(<global name>)  (later, also nested)
    ['trans', e, src_path, dst_path|None]     machine.add_transition(e, src, dst)          (root scope)
    ['local', scope_path, e, src_rel, dst_rel]  with machine(<scope>): machine.add_transition(e, src, dst)
    ['remove', e, src_path|None, dst_path|None]  machine.remove_transition(e, source, dest)   (global names; all scopes)
"""
import copy
import enum
import functools
import random

from . import common
from .helpers11 import (UserValue, make_model, machine_bound, outcome, err_code, enc_name, Cursor)

# names that are string prefixes of one another (A/AB, 1/12, x/x1, P/Pa) on one level and across levels
SEGS = ['A', 'B', 'C', 'P', 'Q', 'a', 'b', 'c', '1', '2', 'x1', 'AB', '12', 'x', 'Pa']
ROOT_EVENTS = ['go', 'run', 'stop']
LOCAL_EVENTS = ['mid', 'inner', 'go', 'run']      # 'go' / 'run' also live in the root scope: one trigger, several scopes


class HKnobs(object):
    def __init__(self, **kw):
        self.max_top = 4
        self.max_depth = 3
        self.p_children = 0.55
        self.p_parallel = 0.12
        self.p_custom_sep = 0.35
        self.p_override = 0.15
        self.p_auto = 0.6
        self.p_clash = 0.35
        self.p_local = 0.6
        self.max_steps = 8
        self.p_embed = 0.5        # a compound state's children come from an embedded HierarchicalMachine (own auto flag)
        self.p_object = 0.3        # a compound state arrives as a pre-built NestedState object owning its substates
        self.p_remove = 0.12       # remove_transition steps (a trigger may live in several scopes; often only part goes)
        self.p_failing = 0.1       # failing reconfiguration calls followed by the corrected call
        self.p_enum = 0.0          # states given as nested Enum classes (member names shared between levels)
        self.__dict__.update(kw)


def gen_tree(rng, kn, depth, used_here):
    nodes = []
    n = rng.randint(2, kn.max_top) if depth == 1 else rng.randint(1, 3)
    names = rng.sample(SEGS, n)
    for name in names:
        node = {'name': name, 'children': [], 'parallel': False, 'initial': None, 'local': []}
        if depth < kn.max_depth and rng.random() < kn.p_children:
            node['children'] = gen_tree(rng, kn, depth + 1, used_here)
            if len(node['children']) >= 2 and rng.random() < kn.p_parallel:
                node['parallel'] = True
            elif rng.random() < 0.7:
                node['initial'] = node['children'][0]['name']
        nodes.append(node)
    return nodes


def all_paths(nodes, prefix=()):
    out = []
    for n in nodes:
        p = prefix + (n['name'],)
        out.append(list(p))
        out += all_paths(n['children'], p)
    return out


def all_nodes(nodes):
    out = []
    for n in nodes:
        out.append(n)
        out += all_nodes(n['children'])
    return out


def node_at(nodes, path):
    cur = None
    for seg in path:
        cur = next(n for n in nodes if n['name'] == seg)
        nodes = cur['children']
    return cur


ENUM_SEGS = ['IDLE', 'WORK', 'A', 'B', 'RUN', 'done']


def gen_enum_tree(rng, kn, depth):
    """a tree for nested Enum classes: few names, so that member names repeat on different levels"""
    nodes = []
    for name in rng.sample(ENUM_SEGS, rng.randint(2, 3)):
        node = {'name': name, 'children': [], 'parallel': False, 'initial': None, 'local': []}
        if depth < kn.max_depth and rng.random() < kn.p_children:
            node['children'] = gen_enum_tree(rng, kn, depth + 1)
        nodes.append(node)
    return nodes


def gen_case(rng, kn):
    is_enum = rng.random() < kn.p_enum
    sep = '_' if (is_enum or rng.random() >= kn.p_custom_sep) else rng.choice(['.', '/'])
    tree = gen_enum_tree(rng, kn, 1) if is_enum else gen_tree(rng, kn, 1, set())
    if is_enum and not any(n['children'] for n in tree):
        tree[0]['children'] = gen_enum_tree(rng, kn, kn.max_depth)
    paths = all_paths(tree)
    case = {'kind': 'hsm', 'sep': sep, 'enum': is_enum, 'attr': rng.choice(['state', 'state', 'mode']), 'override': rng.random() < kn.p_override,
            'auto': rng.random() < kn.p_auto, 'tree': tree, 'transitions': [], 'models': [], 'ops': []}
    # local transitions: declared in the scope of a compound state, names relative to it
    for p in paths:
        node = node_at(tree, p)
        if node['children'] and not node['parallel'] and not is_enum and rng.random() < kn.p_local:
            below = all_paths(node['children'])
            for _ in range(rng.randint(1, 2)):
                src = rng.choice(below)
                dst = rng.choice(below)
                node['local'].append([rng.choice(LOCAL_EVENTS), src, dst])
    # embedded machines: a top-level compound (no parallel state inside) whose children, initial child and local
    # transitions are given as a separate HierarchicalMachine with its OWN auto_transitions flag
    for node in tree:
        below = all_nodes(node['children'])
        plain = node['children'] and not node['parallel'] and not is_enum
        deep = any(c['children'] for c in node['children'])
        if plain and not any(c['parallel'] or c['local'] for c in below) and not node['local'] and rng.random() < kn.p_object:
            node['form'] = 'object'        # NestedState object with ready-made substates (2-3 levels)
        elif plain and rng.random() < kn.p_embed:
            # mostly the flag that differs from the embedding machine's.  (An embedded machine WITH substates keeps its
            # auto transitions off: `_add_machine_states` recognises the embedded machine's auto transitions by its
            # top-level state names only and would copy `to_<nested>` events as local events — C13's business.)
            node['embed'] = {'auto': False if deep else ((not case['auto']) if rng.random() < 0.7 else case['auto'])}
    for _ in range(rng.randint(1, 4)):
        src = rng.choice(paths)
        dst = rng.choice(paths) if rng.random() < 0.85 else None
        case['transitions'].append([rng.choice(ROOT_EVENTS), src, dst])
    init_cands = [p for p in paths if not any(node_at(tree, p[:k + 1])['parallel'] for k in range(len(p) - 1))]
    # (nested Enum machines start in a top-level state: HierarchicalMachine.add_model looks the initial member up by
    # its NAME only, which is the initial-state business of C13 / C02, not a helper)
    case['initial'] = rng.choice([p for p in init_cands if len(p) == 1] if is_enum else init_cands)
    n_models = rng.randint(1, 2)
    top = [n['name'] for n in tree]
    for _m in range(n_models):
        spec = []
        if rng.random() < kn.p_clash:
            cands = (['is_' + sep.join(p) for p in paths if sep == '_' or len(p) == 1] +
                     ['to_' + sep.join(p) for p in paths if sep == '_' or len(p) == 1] +
                     ROOT_EVENTS + ['may_go', 'trigger', 'may_trigger', 'to', 'other', 'mid'])
            for n in rng.sample(cands, min(len(cands), rng.randint(1, 3))):
                level = rng.choice(['cls', 'cls', 'inst'])
                kind = rng.choice(['method', 'method', 'int', 'false', 'zero', 'empty']) if level == 'cls' \
                    else rng.choice(['int', 'func', 'false', 'zero', 'empty'])
                if n not in [x[0] for x in spec]:
                    spec.append([n, level, kind])
        case['models'].append(spec)
    ops = case['ops']
    added = []
    for m in range(n_models):
        if rng.random() < 0.75:
            ops.append(['model', m])
            added.append(m)
    if not added:
        ops.append(['model', 0])
        added.append(0)
    live = [list(p) for p in paths]
    for _ in range(rng.randint(2, kn.max_steps)):
        if rng.random() < kn.p_failing:
            k = rng.random()
            cands = [x for x in range(n_models) if x not in added]
            if k < 0.35 and cands:
                ops.append(['model_bad', cands[0]])         # add_model(model, initial=<unknown state>): ValueError
                ops.append(['model', cands[0]])
                added.append(cands[0])
            elif k < 0.55 and cands:
                ops.append(['unmodel_bad', cands[0]])       # remove_model(<unregistered model>): ValueError
            elif k < 0.8 and not is_enum:
                ops.append(['state_dup', rng.choice(live)])   # add_states(<existing state>): ValueError
            else:
                ops.append(['trans_attr', rng.choice(live)])  # add_transition(<model_attribute>, …): ValueError
            continue
        if rng.random() < kn.p_remove:
            e = rng.choice(ROOT_EVENTS + LOCAL_EVENTS)
            src = rng.choice(live) if rng.random() < 0.55 else None
            dst = rng.choice(live) if rng.random() < 0.3 else None
            ops.append(['remove', e, src, dst])
            continue
        r = rng.random()
        if r < 0.45:
            m = rng.choice(added)
            if case['auto'] and rng.random() < 0.35:
                ops.append(['fire', m, 'to_' + sep.join(rng.choice(live))])
            else:
                ops.append(['fire', m, rng.choice(ROOT_EVENTS + LOCAL_EVENTS)])
        elif r < 0.55:
            ops.append(['to', rng.choice(added), rng.choice(live)])
        elif r < 0.67 and not is_enum:
            parent = rng.choice([[]] + [p for p in live if len(p) < kn.max_depth])
            sibs = [p[-1] for p in live if p[:-1] == parent]
            cands = [s for s in SEGS if s not in sibs]
            if cands:
                name = rng.choice(cands)
                ops.append(['state', parent, name])
                live.append(parent + [name])
        elif r < 0.80:
            ops.append(['trans', rng.choice(ROOT_EVENTS), rng.choice(live), rng.choice(live) if rng.random() < 0.85 else None])
        elif r < 0.90 and not is_enum:
            scopes = [p for p in live if any(q[:len(p)] == p and len(q) > len(p) for q in live)]
            if scopes:
                sc = rng.choice(scopes)
                below = [q[len(sc):] for q in live if q[:len(sc)] == sc and len(q) > len(sc)]
                ops.append(['local', sc, rng.choice(LOCAL_EVENTS), rng.choice(below), rng.choice(below)])
        else:
            m = rng.randrange(n_models)
            ops.append(['model', m])
            if m not in added:
                added.append(m)
    return case


# ---------------------------------------------------------------------------------------------
# realisation
# ---------------------------------------------------------------------------------------------

_CLASSES = {}


class Probe(object):
    """A callback that asks the machine's introspection API from INSIDE an event (machine-level prepare / before / after
    / finalize callbacks, every state's on_enter / on_exit, conditions of transitions — also of transitions declared
    locally in nested scopes, which run while the machine is inside that scope) and compares the answers with the
    answers at rest: the tables do not change during an event.  Always returns True (usable as a condition)."""

    def __init__(self):
        self.machine = None
        self.enabled = False
        self.rest = None
        self.problems = []
        self.calls = 0

    def __call__(self, *_a, **_k):
        if not self.enabled or self.rest is None or len(self.problems) > 2:
            return True
        self.calls += 1
        m = self.machine
        for name, want in self.rest['triggers'].items():
            try:
                got = sorted(set(m.get_triggers(name)))
            except BaseException as e:  # noqa
                got = 'raised %s' % type(e).__name__
            if got != want:
                self.problems.append({'call': 'get_triggers(%r)' % name, 'inside_callback': got, 'at_rest': want,
                                      'scope': list(m.prefix_path)})
                return True
        try:
            got = sorted(map(id, m.get_transitions()))
        except BaseException as e:  # noqa
            got = 'raised %s' % type(e).__name__
        if got != self.rest['transitions']:
            self.problems.append({'call': 'get_transitions()', 'inside_callback': str(got)[:80], 'scope': list(m.prefix_path)})
        return True

    def arm(self, names):
        m = self.machine
        self.rest = {'triggers': {n: sorted(set(m.get_triggers(n))) for n in names}, 'transitions': sorted(map(id, m.get_transitions()))}
        self.enabled = True

    def disarm(self):
        self.enabled = False


def machine_class(sep):
    from transitions.extensions.nesting import HierarchicalMachine, NestedState
    if sep == '_':
        return HierarchicalMachine
    if sep not in _CLASSES:
        ns = type('NestedState11', (NestedState,), {'separator': sep})
        _CLASSES[sep] = type('HierarchicalMachine11', (HierarchicalMachine,), {'state_cls': ns})
    return _CLASSES[sep]


def state_object(cls, n):
    """a ready-made NestedState that already owns its substates"""
    st = cls.state_cls(n['name'], initial=n['initial'])
    for c in n['children']:
        st.add_substate(state_object(cls, c))
    return st


def to_dicts(nodes, sep, probe=None):
    out = []
    for n in nodes:
        if not n['children'] and not n['local']:
            out.append(n['name'])
            continue
        if n.get('form') == 'object':
            out.append(state_object(machine_class(sep), n))
            continue
        d = {'name': n['name']}
        if n.get('embed'):
            # the documented way to reuse a machine: `children: <HierarchicalMachine instance>`
            child = machine_class(sep)(model=None, states=to_dicts(n['children'], sep, probe),
                                       initial=n['initial'] or n['children'][0]['name'],
                                       transitions=[[e, sep.join(src), sep.join(dst), probe] for e, src, dst in n['local']],
                                       auto_transitions=n['embed']['auto'])
            d['children'] = child
            out.append(d)
            continue
        if n['parallel']:
            d['parallel'] = to_dicts(n['children'], sep, probe)
        elif n['children']:
            d['children'] = to_dicts(n['children'], sep, probe)
            if n['initial']:
                d['initial'] = n['initial']
        if n['local']:
            d['transitions'] = [[e, sep.join(src), sep.join(dst), probe] for e, src, dst in n['local']]
        out.append(d)
    return out


def make_enums(nodes, prefix, registry):
    """nested Enum classes for a tree: a compound member's value is the Enum class of its children;
    `registry` maps every member to its path (kept by the harness, independent of the library's lookup)"""
    members = {}
    for i, n in enumerate(nodes):
        members[n['name']] = make_enums(n['children'], prefix + [n['name']], registry) if n['children'] else i + 1
    cls = enum.Enum('E_' + '_'.join(prefix or ['root']), members)
    for n in nodes:
        registry[cls[n['name']]] = prefix + [n['name']]
    return cls


class HRun(object):
    def __init__(self, case):
        self.case = case
        self.sep = case['sep']
        self.attr = case['attr']
        self.enum_path = {}
        self.member = {}
        cls = machine_class(self.sep)
        self.error = None
        self.objs, self.originals = {}, {}
        for i, spec in enumerate(case['models']):
            self.objs[i], self.originals[i] = make_model(spec, i)
        self.registered = []
        self.all_claims = {}
        self.deleted = {}       # model index -> names remove_transition deleted from the model (model_override)
        self.probe = Probe()
        try:
            states = to_dicts(case['tree'], self.sep, self.probe)
            initial = self.sep.join(case['initial'])
            if case.get('enum'):
                states = make_enums(case['tree'], [], self.enum_path)
                self.member = {tuple(p): m for m, p in self.enum_path.items()}
                if len(case['initial']) == 1:
                    initial = self.member[tuple(case['initial'])]
            self.machine = cls(model=None, states=states, initial=initial,
                               transitions=[[e, self.name_or_member(s, i), None if d is None else self.name_or_member(d, i + 1),
                                             self.probe] for i, (e, s, d) in enumerate(case['transitions'])],
                               prepare_event=[self.probe], before_state_change=[self.probe],
                               after_state_change=[self.probe], finalize_event=[self.probe],
                               auto_transitions=case['auto'], model_attribute=case['attr'], model_override=case['override'])
            self.probe.machine = self.machine
            self.hook_states()
        except BaseException as e:  # noqa
            self.machine = None
            self.error = (type(e).__name__, str(e)[:200])

    def hook_states(self):
        """every state's on_enter / on_exit asks the introspection API too"""
        for _p, st in walk_states(self.machine):
            for kind in ('enter', 'exit'):
                if self.probe not in getattr(st, 'on_' + kind):
                    st.add_callback(kind, self.probe)

    def probed(self, call):
        names = [self.sep.join(p) for p, _s in walk_states(self.machine)]
        self.probe.arm(names[:14])
        try:
            return call()
        finally:
            self.probe.disarm()

    def name_or_member(self, path, k=0):
        """a state as passed to the API: the joined name, or (every other time, for Enum machines) the member"""
        if self.member and k % 2 == 0:
            return self.member[tuple(path)]
        return self.sep.join(path)

    def do(self, op):
        m = self.machine
        try:
            k = op[0]
            if k == 'model':
                obj = self.objs[op[1]]
                m.add_model(obj)
                if op[1] not in self.registered and any(obj is x for x in m.models):
                    self.registered.append(op[1])
            elif k == 'fire':
                if op[1] not in self.registered:
                    return ('skip',)
                return ('ret', bool(self.probed(lambda: m.trigger_event(self.objs[op[1]], op[2]))))
            elif k == 'to':
                if op[1] not in self.registered:
                    return ('skip',)
                self.probed(lambda: m.to_state(self.objs[op[1]], self.sep.join(op[2])))
            elif k == 'state':
                m.add_states(self.sep.join(op[1] + [op[2]]))
                self.hook_states()
            elif k == 'trans':
                m.add_transition(op[1], self.name_or_member(op[2], len(op[1])), None if op[3] is None else self.name_or_member(op[3]),
                                 conditions=self.probe)
            elif k == 'local':
                _k, scope, e, src, dst = op
                self.local_add(m, scope, e, self.sep.join(src), self.sep.join(dst))
            elif k == 'model_bad':
                m.add_model(self.objs[op[1]], initial='nowhere')
            elif k == 'unmodel_bad':
                m.remove_model(self.objs[op[1]])
            elif k == 'state_dup':
                m.add_states(self.sep.join(op[1]))
            elif k == 'trans_attr':
                m.add_transition(self.attr, self.sep.join(op[1]), self.sep.join(op[1]))
            elif k == 'remove':
                _k, e, src, dst = op
                m.remove_transition(e, source='*' if src is None else self.sep.join(src),
                                    dest='*' if dst is None else self.sep.join(dst))
            return ('ok',)
        except BaseException as e:  # noqa
            return ('raised', type(e).__name__, str(e)[:120])

    def local_add(self, m, scope, e, src, dst):
        if not scope:
            m.add_transition(e, src, dst, conditions=self.probe)
            return
        with m(scope[0]):
            self.local_add(m, scope[1:], e, src, dst)


def walk_states(machine_or_state, prefix=()):
    for name, st in machine_or_state.states.items():
        p = prefix + (name,)
        yield list(p), st
        for x in walk_states(st, p):
            yield x


def scope_tables(machine, sep):
    """[(scope prefix, [(event, [source key as relative path])])] — root first"""
    out = [([], [(e, [k.split(sep) for k in ev.transitions.keys()]) for e, ev in machine.events.items()])]
    for p, st in walk_states(machine):
        if st.events:
            out.append((p, [(e, [k.split(sep) for k in ev.transitions.keys()]) for e, ev in st.events.items()]))
    return out


def flatten(v):
    if isinstance(v, (list, tuple)):
        out = []
        for x in v:
            out += flatten(x)
        return out
    return [v]


def active_paths(run, obj):
    v = getattr(obj, run.attr)
    out = []
    for x in flatten(v):
        if isinstance(x, enum.Enum):
            out.append(list(run.enum_path.get(x, ['<unknown member %r>' % (x,)])))   # the harness' own member -> path map
        else:
            out.append(x.split(run.sep))
    return out


def s_digit(seg):
    return 's' + seg if seg[0].isdigit() else seg


def is_access(sep, p):
    return ['is_' + '_'.join(p)] if sep == '_' else ['is_' + p[0]] + [s_digit(x) for x in p[1:]]


def to_access(sep, p):
    return ['to_' + '_'.join(p)] if sep == '_' else ['to_' + p[0]] + [s_digit(x) for x in p[1:]]


def access(obj, names):
    for n in names:
        if not hasattr(obj, n):
            return None
        obj = getattr(obj, n)
    return obj


def enc_path(p):
    out = [len(p)]
    for seg in p:
        out += enc_name(seg)
    return out


def enc_request(run, obj):
    """the real machine's tables as the Lean `HSM` + the queries (every state path)"""
    m = run.machine
    paths = [p for p, _s in walk_states(m)]
    tables = scope_tables(m, run.sep)
    out = [ord(run.sep), len(paths)]
    for p in paths:
        out += enc_path(p)
    out.append(len(tables))
    for pre, evs in tables:
        out += enc_path(pre)
        out.append(len(evs))
        for e, srcs in evs:
            out += enc_name(e)
            out.append(len(srcs))
            for q in srcs:
                out += enc_path(q)
    act = active_paths(run, obj)
    out.append(len(act))
    for p in act:
        out += enc_path(p)
    out.append(len(paths))
    for p in paths:
        out += enc_path(p)
    return paths, out


def parse_answer(ans, paths):
    if ans in ('bad-input', ''):
        raise common.MachineryError('c11hsm rejected its input')
    c = Cursor([int(x) for x in ans.split()])
    out = []
    for _p in paths:
        d = {'is_access': c.lst(c.name), 'to_access': c.lst(c.name), 'is': bool(c.nat()), 'is_sub': bool(c.nat()),
             'triggers': c.lst(c.name), 'fires': c.lst(c.name)}
        out.append(d)
    known = sorted(c.lst(c.name))
    covered = bool(c.nat())
    if not c.done():
        raise common.MachineryError('c11hsm: trailing output')
    return out, known, covered


# ---------------------------------------------------------------------------------------------
# oracle + correspondence after a step
# ---------------------------------------------------------------------------------------------

def all_event_names(tables):
    seen = []
    for _pre, evs in tables:
        for e, _s in evs:
            if e not in seen:
                seen.append(e)
    return seen


def all_transitions(machine_or_state, prefix=()):
    """every transition object with the scope it is declared in"""
    out = []
    for e, ev in machine_or_state.events.items():
        for lst in ev.transitions.values():
            for t in lst:
                out.append((list(prefix), e, t))
    for name, st in machine_or_state.states.items():
        out += all_transitions(st, prefix + (name,))
    return out


def check_step(run, last_op, pending):
    """returns list of (kind, what, details, signature); appends to `pending` the driver requests of this step
    together with the implementation's observations they are to be compared with (`correspond`)"""
    fails = []
    m, sep, attr = run.machine, run.sep, run.attr
    override, auto = run.case['override'], bool(run.case['auto'])
    if not run.registered:
        return fails

    def bad(kind, what, sig=None, **details):
        fails.append((kind, what, details, sig or ('C11.nested.' + what)))
    paths = [p for p, _s in walk_states(m)]
    tables = scope_tables(m, sep)
    events = all_event_names(tables)
    if not auto:
        ghosts = [e for e in events if e.startswith('to_')]
        if ghosts:
            bad('monitor', 'to-event-exists-although-auto-transitions-are-off', events=ghosts)
    twin_m, twin_objs = copy.deepcopy((m, [run.objs[i] for i in run.registered]))
    # ---- claims (top-level attribute names) --------------------------------------------------
    want = {}

    def claim(n, kind, x):
        want.setdefault(n, set()).add((kind, x))
        run.all_claims.setdefault(n, set()).add((kind, x))
    claim('trigger', 'triggerFn', '')
    claim('may_trigger', 'mayTriggerFn', '')
    claim('to', 'toFn', '')
    for e in events:
        claim('may_' + e, 'may', e)
        if e.startswith('to_') and sep != '_':
            claim('to_' + e[3:].split(sep)[0], 'towrap', e[3:].split(sep)[0])
        else:
            claim(e, 'event', e)
    for p in paths:
        if sep == '_':
            claim('is_' + '_'.join(p), 'is', tuple(p))
        else:
            claim('is_' + p[0], 'iswrap', p[0])
    # ---- Lean side: one request per registered model (its active configuration) ---------------
    for pos, i in enumerate(run.registered):
        obj, twin = run.objs[i], twin_objs[pos]
        orig = run.originals[i]
        user = {n: v for n, v in orig.items() if n != attr}
        qpaths, req = enc_request(run, obj)
        obs = {'model': i, 'paths': qpaths, 'active': None, 'per_path': [dict() for _ in qpaths], 'known': sorted(events), 'auto': auto}
        pending.append(('c11hsm', req, obs))
        act = active_paths(run, obj)
        obs['active'] = act
        cur = getattr(obj, attr)
        # -- pre-existing attributes ----------------------------------------------------------
        for n, (level, kind, v) in user.items():
            in_inst = n in vars(obj)
            untouched = (not in_inst and type(obj).__dict__.get(n) is v) if level == 'cls' else (in_inst and vars(obj)[n] is v)
            if not override and not untouched:
                bad('monitor', 'user-attribute-not-preserved', model=i, name=n, now=repr(vars(obj).get(n, '<gone>'))[:60])
            elif override and n not in run.all_claims and not untouched:
                bad('monitor', 'user-attribute-replaced-though-no-helper-has-that-name', model=i, name=n)
        # -- presence of top-level helper names per policy -------------------------------------
        judged = set()
        for n, cl in want.items():
            if len(run.all_claims[n]) != 1 or n == attr:
                continue
            if n in run.deleted.get(i, ()):
                continue               # model_override: the replacement was deleted together with its event
            kind = sorted(cl)[0][0]
            if kind == 'toFn':
                expected = n not in user           # `to` is bound with hasattr/setattr, never over a user attribute
            else:
                expected = (n in user) == override
            v = vars(obj).get(n)
            present = machine_bound(v) or type(v).__name__ == 'FunctionWrapper'
            if present != expected:
                bad('monitor', 'helper-missing' if expected else 'helper-bound-against-override-policy', model=i, name=n, helper_kind=kind)
            elif present:
                judged.add(n)
        # -- is_<state>() / is_<state>(allow_substates=True) for every state ---------------------
        for p, ob in zip(qpaths, obs['per_path']):
            names = is_access(sep, p)
            ob['is_access'] = names
            ob['to_access'] = to_access(sep, p)
            if names[0] not in judged:
                continue
            f = access(obj, names)
            if f is None:
                bad('monitor', 'is-helper-missing', model=i, path=p, access=names)
                continue
            exact = outcome(f)
            sub = outcome(f, True)
            exp_exact = p in act
            exp_sub = any(a[:len(p)] == p for a in act)
            if exact != ('ret', exp_exact) or sub != ('ret', exp_sub):
                bad('monitor', 'is-helper-wrong', model=i, path=p, exact=exact, with_substates=sub, active=act)
            ob['is'] = [exact, sub]
        # -- … and in EVERY configuration (the twin is put into every state): exactly the state and its ancestors
        #    answer True with allow_substates, exactly the state itself without
        if pos == 0:
            for src in (qpaths if len(qpaths) <= 14 else qpaths[:14]):
                twin_m.set_state(sep.join(src), twin)
                for p in qpaths:
                    names = is_access(sep, p)
                    if names[0] not in judged:
                        continue
                    f = access(twin, names)
                    if f is None:
                        continue
                    got = (outcome(f), outcome(f, True))
                    exp = (('ret', p == src), ('ret', src[:len(p)] == p))
                    if got != exp:
                        bad('monitor', 'is-helper-wrong-in-some-configuration', model=i, configuration=src, helper=p,
                            exact=got[0], with_substates=got[1])
                        break
                else:
                    continue
                break
            setattr(twin, attr, copy.deepcopy(cur))
        # -- event method == trigger(name) --------------------------------------------------------
        trig_ok = 'trigger' in judged
        for e in events:
            if e.startswith('to_') and sep != '_':
                names = to_access(sep, e[3:].split(sep))
            else:
                names = [e]
            if names[0] not in judged:
                continue
            f = access(twin, names)
            if f is None:
                bad('monitor', 'event-method-missing', model=i, event=e, access=names)
                continue
            setattr(twin, attr, copy.deepcopy(cur))
            a = outcome(f)
            sa = getattr(twin, attr)
            setattr(twin, attr, copy.deepcopy(cur))
            b = outcome(twin.trigger, e) if trig_ok else outcome(twin_m.trigger_event, twin, e)
            sb = getattr(twin, attr)
            setattr(twin, attr, copy.deepcopy(cur))
            if a != b or sa != sb:
                bad('monitor', 'event-method-differs-from-trigger', model=i, event=e, method=[a, sa], by_name=[b, sb])
        # -- to_<state>() exists for every state iff auto, and ends in that state — called from EVERY state of the
        #    machine (all of them up to 14 states; beyond that every top-level state and a fixed sample of the rest)
        probe_sources = qpaths if len(qpaths) <= 14 else \
            [p_ for p_ in qpaths if len(p_) == 1] + random.Random(len(qpaths)).sample([p_ for p_ in qpaths if len(p_) > 1], 8)
        for p in qpaths:
            e = 'to_' + sep.join(p)
            exists = e in m.events
            if exists != auto:
                bad('monitor', 'to-event-exists-iff-auto', path=p, exists=exists, auto=auto)
            names = to_access(sep, p)
            if not auto or names[0] not in judged:
                continue
            f = access(twin, names)
            if f is None:
                bad('monitor', 'to-helper-missing', model=i, path=p, access=names)
                continue
            for src in probe_sources:
                twin_m.set_state(sep.join(src), twin)
                r = outcome(f)
                chk = access(twin, is_access(sep, p)) if is_access(sep, p)[0] in judged else None
                inside = any(a[:len(p)] == p for a in active_paths(run, twin))
                if r != ('ret', True) or not inside:
                    bad('monitor', 'to-helper-does-not-end-in-its-state', model=i, helper=names, source=src, result=r,
                        ends_in=getattr(twin, attr))
                    break
            setattr(twin, attr, copy.deepcopy(cur))
        # -- the event methods on the model are exactly the triggers the machine still knows in ANY scope: a method the
        #    machine bound for a name no scope declares any more is stale (missing ones: `helper-missing` above)
        stale = [n for n, v in vars(obj).items() if n not in user and isinstance(v, functools.partial) and
                 getattr(v.func, '__name__', '') == 'trigger_event' and len(v.args) > 1 and v.args[1] not in events]
        if stale:
            bad('monitor', 'event-method-of-an-event-the-machine-no-longer-has', model=i, names=sorted(stale))
        if not auto:
            # without auto transitions nothing named to_<…> exists: no event in any scope (the histories declare none
            # themselves), no such helper on the model
            ghosts = [n for n, v in vars(obj).items() if n.startswith('to_') and n not in user and
                      (machine_bound(v) or type(v).__name__ == 'FunctionWrapper')]
            if ghosts:
                bad('monitor', 'to-helper-exists-although-auto-transitions-are-off', model=i, helpers=sorted(ghosts))
        # -- model.to(<state>) ------------------------------------------------------------------
        if 'to' in judged:
            for p in qpaths[:6]:
                twin_m.set_state(sep.join(act[0]), twin)
                r = outcome(lambda: (twin.to(sep.join(p)), True)[1])
                if r != ('ret', True) or not any(a[:len(p)] == p for a in active_paths(run, twin)):
                    bad('monitor', 'to-function-does-not-end-in-its-state', model=i, path=p, result=r, ends_in=getattr(twin, attr))
            setattr(twin, attr, copy.deepcopy(cur))
        # -- get_triggers(state) vs firing on the twin, vs the Lean model -----------------------
        if pos == 0:
            for p, ob in zip(qpaths, obs['per_path']):
                name = sep.join(p)
                listed = m.get_triggers(name)
                fires = []
                for e in events:
                    twin_m.set_state(name, twin)
                    r = outcome(twin_m.trigger_event, twin, e)
                    if r != ('raised', 'MachineError'):
                        fires.append(e)
                ob['triggers'] = sorted(set(listed))
                ob['fires'] = sorted(fires)
                if sorted(set(listed)) != sorted(fires):
                    missing = sorted(set(fires) - set(listed))
                    extra = sorted(set(listed) - set(fires))
                    bad('monitor', 'get_triggers-not-exact', None, path=p, listed=sorted(set(listed)), fire=sorted(fires),
                        missing=missing, extra=extra)
            setattr(twin, attr, copy.deepcopy(cur))
    # ---- get_transitions -------------------------------------------------------------------
    table = all_transitions(m)
    where = {id(t): (pre, e, t.source.split(sep), None if t.dest is None else t.dest.split(sep)) for pre, e, t in table}
    queries = []      # (trigger, src path | None, dst path | None, result of the real call)
    got = m.get_transitions()
    queries.append(('', None, None, got))
    if sorted(map(id, got)) != sorted(id(t) for _pre, _e, t in table):
        bad('monitor', 'get_transitions-all-not-exact', got=len(got), expected=len(table))
    for e in events + ['nope']:
        got = m.get_transitions(e)
        queries.append((e, None, None, got))
        if sorted(map(id, got)) != sorted(id(t) for _pre, ev, t in table if ev == e):
            bad('monitor', 'get_transitions-by-trigger-not-exact', trigger=e, got=len(got))
    rng = random.Random(len(table) * 7 + len(paths))
    combos = [(None, p_) for p_ in paths] + [(p_, None) for p_ in paths] + \
        [(rng.choice([None] + paths), rng.choice([None] + paths)) for _ in range(12)]
    for src, dst in combos:
        if src is None and dst is None:
            continue
        got = m.get_transitions('', '*' if src is None else sep.join(src), '*' if dst is None else sep.join(dst))
        queries.append(('', src, dst, got))
        exp = [t for pre, _e, t in table
               if (src is None or pre + t.source.split(sep) == src) and
               (dst is None or (t.dest is not None and pre + t.dest.split(sep) == dst))]
        if sorted(map(id, got)) != sorted(map(id, exp)):
            bad('monitor', 'get_transitions-filter-not-exact', None, source=src, dest=dst,
                got=[(t.source, t.dest) for t in got], expected=[(t.source, t.dest) for t in exp])
            break
        # the same selection with the STATE OBJECTS as selectors (local names repeat under different parents: the object,
        # not its name, identifies the state)
        try:
            so = '*' if src is None else m.get_state(sep.join(src))
            do = '*' if dst is None else m.get_state(sep.join(dst))
            got_o = m.get_transitions('', so, do)
        except Exception as e:     # noqa
            bad('monitor', 'get_transitions-by-state-object-raised', None, source=src, dest=dst, err=repr(e)[:120])
            break
        if sorted(map(id, got_o)) != sorted(map(id, exp)):
            bad('monitor', 'get_transitions-by-state-object-not-exact', None, source=src, dest=dst,
                got=[(t.source, t.dest) for t in got_o], expected=[(t.source, t.dest) for t in exp])
            break
    pending.append(('c11trans', enc_trans_request(paths, table, sep, queries),
                    {'queries': [(q[0], q[1], q[2]) for q in queries],
                     'results': [sorted((where[id(t)] for t in q[3]), key=repr) for q in queries]}))
    return fails


def enc_trans_request(paths, table, sep, queries):
    out = [len(paths)]
    for p in paths:
        out += enc_path(p)
    scopes = []
    for pre, e, t in table:
        sc = next((x for x in scopes if x[0] == pre), None)
        if sc is None:
            sc = (pre, [])
            scopes.append(sc)
        ev = next((x for x in sc[1] if x[0] == e), None)
        if ev is None:
            ev = (e, [])
            sc[1].append(ev)
        ev[1].append(t)
    out.append(len(scopes))
    for pre, evs in scopes:
        out += enc_path(pre)
        out.append(len(evs))
        for e, ts in evs:
            out += enc_name(e)
            out.append(len(ts))
            for t in ts:
                out += enc_path(t.source.split(sep))
                out += [0] if t.dest is None else [1] + enc_path(t.dest.split(sep))
    out.append(len(queries))
    for trig, src, dst, _got in queries:
        out += ([0] if not trig else [1] + enc_name(trig)) + enc_path(src or []) + enc_path(dst or [])
    return out


def correspond_trans(obs, ans):
    if ans == 'bad-input':
        raise common.MachineryError('c11trans rejected its input')
    c = Cursor([int(x) for x in ans.split()])

    def path():
        return c.lst(c.name)
    for q, impl in zip(obs['queries'], obs['results']):
        model = sorted(c.lst(lambda: (path(), c.name(), path(), (path() if c.nat() else None))), key=repr)
        if model != [tuple(x) for x in impl]:
            return ('get_transitions', {'query': q, 'impl': impl, 'model': model})
    return None


def wrapper_steps(machine, sep):
    """the FunctionWrapper binding steps of add_model in the code's order: (top-level attribute name, is-step?, path
    below the top-level name empty?) — root `to_` events first, then the states depth first with their scopes' events"""
    steps = []

    def ev_steps(events):
        for e in events:
            if e.startswith('to_'):
                path = e[3:].split(sep)
                steps.append(('to_' + path[0], False, len(path) == 1))

    def walk(holder, prefix):
        for name, st in holder.states.items():
            p = prefix + [name]
            steps.append(('is_' + p[0], True, len(p) == 1))
            ev_steps(st.events)
            walk(st, p)
    ev_steps(machine.events)
    walk(machine, [])
    return steps


def wrapper_names(steps):
    names = []
    for n, _i, _r in steps:
        if n not in names:
            names.append(n)
    return names


def attr_kind(obj, n):
    """0 missing, 1 the model's own attribute, 2 None, 3 FunctionWrapper"""
    from transitions.extensions.nesting import FunctionWrapper
    if not hasattr(obj, n):
        return 0
    v = getattr(obj, n)
    return 3 if isinstance(v, FunctionWrapper) else 2 if v is None else 1


def enc_wrap_request(override, obj, steps):
    names = wrapper_names(steps)
    out = [int(override), len(names)]
    for n in names:
        out += enc_name(n) + [attr_kind(obj, n)]
    out.append(len(steps))
    for n, i, r in steps:
        out += enc_name(n) + [int(i), int(r)]
    return out


def correspond(kind, obs, ans):
    """compare the observations of one step / model with the Lean model's answer to the request built from the
    real machine's tables at that moment"""
    if kind == 'c11trans':
        return correspond_trans(obs, ans)
    if kind == 'c11wrap':
        model = [int(x) for x in ans.split()]
        return None if model == obs['kinds'] else ('wrapper_binding', {'names': obs['names'], 'impl': obs['kinds'],
                                                                        'model': model, 'op': obs['op']})
    lean, known, covered = parse_answer(ans, obs['paths'])
    if 'known' in obs and obs['known'] != known:
        return ('known_events', {'impl': obs['known'], 'model': known})
    if obs.get('auto') and not covered:
        # the verified check `autoCoveredB` (premise of C11_to_fires_everywhere) on the real machine's tables
        return ('auto_transitions_cover_every_state', {'model': covered, 'auto': True})
    for p, ob, lp in zip(obs['paths'], obs['per_path'], lean):
        for key, what in (('is_access', 'is_access_names'), ('to_access', 'to_access_names'), ('triggers', 'get_triggers'),
                          ('fires', 'fires')):
            if key in ob:
                mv = sorted(set(lp[key])) if key in ('triggers', 'fires') else lp[key]
                if ob[key] != mv:
                    return (what, {'path': p, 'impl': ob[key], 'model': mv, 'active': obs['active']})
        if 'is' in ob and ob['is'] != [('ret', lp['is']), ('ret', lp['is_sub'])]:
            return ('is_state', {'path': p, 'impl': ob['is'], 'model': [lp['is'], lp['is_sub']], 'active': obs['active']})
    return None


def run_case(case):
    """runs the case on the real classes; returns (failures, facts, pending driver requests with observations)"""
    run = HRun(case)
    pending = []
    facts = {'steps': 0, 'construction_error': 0, 'custom_sep': int(case['sep'] != '_'), 'known': 0, 'fired': 0}
    if run.error:
        facts['construction_error'] = 1
        return [('monitor', 'construction-raises', {'error': run.error}, 'C11.nested.construction-raises')], facts, pending
    fails = []
    for k, op in enumerate(case['ops']):
        wreq = None
        if op[0] == 'model' and case['sep'] != '_' and op[1] not in run.registered:
            wsteps = wrapper_steps(run.machine, case['sep'])
            wreq = enc_wrap_request(case['override'], run.objs[op[1]], wsteps)
        members = [id(x) for x in run.machine.models]
        shape = [(tuple(pre), [(e, len(srcs)) for e, srcs in evs]) for pre, evs in scope_tables(run.machine, case['sep'])]
        r = run.do(op)
        if op[0] in ('model_bad', 'unmodel_bad', 'state_dup', 'trans_attr'):
            # a call that must fail: ValueError, registration and tables as they were; the clauses are judged below
            now = [(tuple(pre), [(e, len(srcs)) for e, srcs in evs]) for pre, evs in scope_tables(run.machine, case['sep'])]
            if r[0] != 'raised' or r[1] != 'ValueError':
                fails.append(('monitor', 'invalid-call-accepted', {'step': k, 'op': op, 'outcome': r}, 'C11.nested.invalid-call-accepted'))
                break
            if members != [id(x) for x in run.machine.models] or now != shape:
                fails.append(('monitor', 'failed-call-changed-the-machine', {'step': k, 'op': op, 'models_before': len(members),
                                                                             'models_after': len(run.machine.models)},
                              'C11.nested.failed-call-changed-the-machine'))
                break
        if wreq is not None and r[0] == 'ok':
            names = wrapper_names(wsteps)
            pending.append(('c11wrap', wreq, {'names': names, 'kinds': [attr_kind(run.objs[op[1]], n) for n in names], 'op': op}))
        if run.probe.problems:
            fails.append(('monitor', 'introspection-inside-a-callback-differs-from-the-answer-at-rest',
                          dict(run.probe.problems[0], step=k, op=op), 'C11.nested.introspection-inside-a-callback'))
            break
        facts['probes'] = run.probe.calls
        if op[0] == 'remove' and case['override'] and r[0] == 'ok' and \
                op[1] not in all_event_names(scope_tables(run.machine, case['sep'])):
            for i in run.registered:
                run.deleted.setdefault(i, set()).add(op[1])
        facts['steps'] += 1
        facts['fired'] += int(r == ('ret', True) or (op[0] == 'to' and r == ('ok',)))
        if r[0] == 'raised' and op[0] in ('model', 'state', 'trans', 'local', 'remove'):
            # a valid reconfiguration call must not raise
            fails.append(('monitor', 'reconfiguration-raises', {'step': k, 'op': op, 'error': r[1:]},
                          'C11.nested.reconfiguration-raises'))
            break
        try:
            fs = check_step(run, op, pending)
        except common.MachineryError:
            raise
        except BaseException as e:  # noqa
            import traceback
            fs = [('monitor', 'introspection-raised', {'error': type(e).__name__, 'where': traceback.format_exc()[-700:]},
                   'C11.nested.introspection-raised')]
        if fs:
            for kind, what, details, sig in fs[:3]:
                fails.append((kind, what, dict(details, step=k, op=op), sig))
            break
    return fails, facts, pending
