"""Model and machine classes for the C14 check.

They live in an importable module because `MarkupMachine._add_markup_model` re-creates models from the
exported `class-name` path (`importlib.import_module(mod).Class()`).  Every attribute named `cb<N>` is a
synthesised callback that records its own name; its return value (it may sit in a `conditions` /
`unless` list) is looked up in the module-level `TRUTH` table, default True.  `RECORDER` is the sink of
the run in progress (original and rebuilt machine are driven one after the other).
"""
from . import common  # noqa: F401  (puts the repo under test on sys.path)

from transitions.extensions.markup import MarkupMachine, HierarchicalMarkupMachine

TRUTH = {}
RECORDER = {'log': None, 'machine': None}


def _synth(owner, name):
    def cb(*_args, **_kwargs):
        log = RECORDER['log']
        if log is not None:
            m = RECORDER['machine']
            try:
                ix = m.models.index(owner)
                st = getattr(owner, m.model_attribute, None)
            except ValueError:
                ix, st = -1, None
            log.append(['cb', name, ix, st if not isinstance(st, list) else list(st)])
        return TRUTH.get(name, True)
    cb.__name__ = name
    return cb


class _Synth(object):
    def __getattr__(self, name):
        if name.startswith('cb') and name[2:].isdigit():
            return _synth(self, name)
        raise AttributeError(name)


class ModelA(_Synth):
    """plain model without a `name` attribute (the export prints id(model) for it)"""


class ModelB(_Synth):
    """model class with a `name` attribute (exported under 'name')"""
    name = 'model-b'


class FlatMM(MarkupMachine):
    """MarkupMachine that can be its own model: synthesises `cb<N>` like the model classes"""

    def __getattr__(self, name):
        if name.startswith('cb') and name[2:].isdigit():
            return _synth(self, name)
        return super(FlatMM, self).__getattr__(name)


class HierMM(HierarchicalMarkupMachine):
    def __getattr__(self, name):
        if name.startswith('cb') and name[2:].isdigit():
            return _synth(self, name)
        return super(HierMM, self).__getattr__(name)


MODEL_CLASSES = {'A': ModelA, 'B': ModelB}
