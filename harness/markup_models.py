"""Model and machine classes for the C14 check.

They live in an importable module because `MarkupMachine._add_markup_model` re-creates models from the
exported `class-name` path (`importlib.import_module(mod).Class()`).  Every attribute named `cb<N>` is a
synthesised callback that records its own name; its return value (it may sit in a `conditions` /
`unless` list) is looked up in the module-level `TRUTH` table, default True.  `RECORDER` is the sink of
the run in progress (original and rebuilt machine are driven one after the other).
"""
from . import common  # noqa: F401  (puts the repo under test on sys.path)

from transitions.extensions.markup import MarkupMachine, HierarchicalMarkupMachine
from transitions.extensions.diagrams import GraphMachine, HierarchicalGraphMachine

from enum import Enum, IntEnum
try:
    from enum import StrEnum
except ImportError:      # Python < 3.11
    class StrEnum(str, Enum):
        pass

TRUTH = {}
# 'ctx': the callback program of the run in progress (harness.markupcase.Ctx) — callbacks may read the markup or
# modify the machine from inside; None while histories are replayed
RECORDER = {'log': None, 'machine': None, 'ctx': None}


def state_repr(v):
    """a model state as the markup names it: Enum members by name, parallel states as nested lists"""
    if isinstance(v, Enum):
        return v.name
    if isinstance(v, (list, tuple)):
        return [state_repr(x) for x in v]
    return v


# Enum flavours for state definitions (module level: members must be picklable).  Values differ from the
# member names on purpose; IntE has a member with value 0.
_NAMES = ['A', 'B', 'C', 'D', 'E', 'F', 'G', 'H', 'P', 'Q']
PlainE = Enum('PlainE', [(n, (i + 1) * 10) for i, n in enumerate(_NAMES)], module=__name__)
IntE = IntEnum('IntE', [(n, i) for i, n in enumerate(_NAMES)], module=__name__)
StrMixE = Enum('StrMixE', [(n, n.lower() + '-value') for n in _NAMES], module=__name__, type=str)
StrE = StrEnum('StrE', [(n, n.lower()) for n in _NAMES], module=__name__)
ENUMS = {'plain': PlainE, 'int': IntE, 'strmix': StrMixE, 'strenum': StrE}


def _synth(owner, name):
    def cb(*_args, **_kwargs):
        log = RECORDER['log']
        if log is not None:
            m = RECORDER['machine']
            try:
                ix = m.models.index(owner)
                st = state_repr(getattr(owner, m.model_attribute, None))
            except ValueError:
                ix, st = -1, None
            log.append(['cb', name, ix, st])
        ctx = RECORDER['ctx']
        if ctx is not None:
            ctx.invoke(name)
        return TRUTH.get(name, True)
    cb.__name__ = name
    return cb


class _Synth(object):
    def __getattr__(self, name):
        if name.startswith('cb') and name[2:].isdigit():
            return _synth(self, name)
        raise AttributeError(name)


class ModelA(_Synth):
    """plain model without a `name` attribute (the export prints id(model) for it)"""


class ModelB(_Synth):
    """model class with a `name` attribute (exported under 'name')"""
    name = 'model-b'


class FlatMM(MarkupMachine):
    """MarkupMachine that can be its own model: synthesises `cb<N>` like the model classes"""

    def __getattr__(self, name):
        if name.startswith('cb') and name[2:].isdigit():
            return _synth(self, name)
        return super(FlatMM, self).__getattr__(name)


class HierMM(HierarchicalMarkupMachine):
    def __getattr__(self, name):
        if name.startswith('cb') and name[2:].isdigit():
            return _synth(self, name)
        return super(HierMM, self).__getattr__(name)


class FlatGM(GraphMachine):
    """markup-bearing machine with diagram support (GraphMachine derives from MarkupMachine)"""

    def __getattr__(self, name):
        if name.startswith('cb') and name[2:].isdigit():
            return _synth(self, name)
        return super(FlatGM, self).__getattr__(name)


class HierGM(HierarchicalGraphMachine):
    def __getattr__(self, name):
        if name.startswith('cb') and name[2:].isdigit():
            return _synth(self, name)
        return super(HierGM, self).__getattr__(name)


MODEL_CLASSES = {'A': ModelA, 'B': ModelB}
