"""C08: projection of a controller log onto the protocol labels of lean/Model/AsyncSched.lean, and the
Python-side monitors that state each clause of the property directly on the log."""
from . import asyncctl

STATE_CODE = {'A': 0, 'B': 1, 'C': 2, 'B_x': 3, 'B_y': 4}
KLASS = {}
for _s in asyncctl.PRE:
    KLASS[_s] = 0
for _s in asyncctl.MID:
    KLASS[_s] = 1
for _s in asyncctl.POST:
    KLASS[_s] = 2
KLASS['on_exception'] = 3
KLASS['finalize_event'] = 4


class Labels(list):
    """label list; `race` = a task was cancelled while one of its callbacks had raised and its `_trigger` had not
    yet taken notice: asyncio's internal order then decides whether the exception or the CancelledError arrives
    (both happen); such traces are judged by the Python monitors only"""
    race = False

    def __init__(self, *a):
        list.__init__(self, *a)
        self.spurious = []      # events that failed without a raising callback


def labels(case, log):
    """-> list of label tuples (kind, …) in the order of the log"""
    out = Labels()
    i = 0
    n = len(log)
    # A raising callback fails its event when the event's task resumes, which is not observable; the
    # `fail` label is therefore placed at the event's next own step (stage entry / evend).  If the task
    # is cancelled before it resumes, asyncio throws CancelledError instead of the pending exception:
    # the failure never reaches `_trigger` and is not a model step.
    pending = {}            # tag -> chain in which it is being processed
    chain_of = {}
    cancelled_chains = set()
    failed_ever = set()
    while i < n:
        it = log[i]
        k = it[0]
        if k == 'evstart':
            chain_of[it[1]] = it[3]
        if (k == 'stage' and it[2] == 'on_exception' and it[1] not in pending
                and chain_of.get(it[1]) not in cancelled_chains) or \
                (k == 'evend' and it[3] == 1 and it[1] not in pending and it[1] not in failed_ever):
            # the event fails although none of its callbacks (or nested calls) raised: an exception of the library
            if it[1] not in out.spurious:
                out.spurious.append(it[1])
        if k in ('stage', 'evend') and it[1] in pending:
            del pending[it[1]]
            failed_ever.add(it[1])
            out.append(('fail', it[1]))
            if chain_of.get(it[1]) in cancelled_chains:
                # an exception (of a handler, or of a nested call) reaches an event of an already cancelled
                # task: whether it replaces the pending CancelledError is again asyncio's business
                out.race = True
        if k == 'cancel':
            cancelled_chains.add(it[1])
        if k == 'cancel':
            for tg in [tg for tg in pending if chain_of.get(tg) == it[1]]:
                del pending[tg]
                failed_ever.add(tg)
                out.race = True
        if k == 'begin':
            out.append(('begin', it[1], it[2], it[3]))
        elif k == 'evstart':
            out.append(('evstart', it[1], it[2]))
        elif k == 'evend':
            out.append(('evend', it[1], it[2], it[3]))
        elif k == 'cb':
            out.append(('cb', it[1], KLASS[it[2]]))
        elif k == 'stage':
            out.append(('cb', it[1], KLASS[it[2]]))
        elif k == 'decide':
            cs = []
            j = i + 1
            while j < n and log[j][0] == 'cancel':
                cs.append(log[j][1])
                if log[j][1] in cancelled_chains:
                    # cancelled again, possibly before the first CancelledError was delivered (one arrives)
                    out.race = True
                cancelled_chains.add(log[j][1])
                for tg in [tg for tg in pending if chain_of.get(tg) == log[j][1]]:
                    del pending[tg]
                    failed_ever.add(tg)
                    out.race = True
                j += 1
            out.append(('decide', it[1] if it[1] is not None else 10 ** 6, cs))
            i = j - 1
        elif k == 'cancel':
            # a root task cancelled outside cancel_running_transitions: not a model step
            out.append(('decide', 10 ** 6, [it[1]]))
        elif k == 'set':
            out.append(('set', it[1] if it[1] is not None else 10 ** 6, STATE_CODE.get(it[3], 99)))
        elif k == 'cbend' and it[4] == 'raise':
            pending[it[1]] = True
        elif k == 'ret':
            out.append(('ret', it[1], 1 if it[2] else 0))
        elif k == 'raised':
            out.append(('raised', it[1], 1 if it[2] == 'Cancelled' else 0))
        elif k == 'remove':
            out.append(('remove', it[1]))
        i += 1
    return out


CODE = {'begin': 0, 'evstart': 1, 'evend': 2, 'cb': 3, 'decide': 4, 'set': 5, 'fail': 6, 'ret': 7, 'raised': 8,
        'remove': 9}


def enc_request(case, labs):
    states = [0, 1, 2] + ([3, 4] if case['hsm'] else [])
    nums = [case['queued'], 1 if case['on_exc'] else 0, len(case.get('protected', []))] + list(case.get('protected', []))
    nums += [len(states)] + states + [0, len(labs)]
    for l in labs:
        nums.append(CODE[l[0]])
        if l[0] == 'decide':
            nums += [l[1], len(l[2])] + list(l[2])
        else:
            nums += list(l[1:])
    return nums


def show_label(l):
    return ' '.join(str(x) for x in l)


# -------------------------------------------------------------------------------------------------
# Python-side monitors: each returns a list of (clause, details)
# -------------------------------------------------------------------------------------------------

def key_of(case, m):
    return 0 if case['queued'] == 1 else m


def mon_queue(case, log):
    """queued=True / 'model': processings of one key never overlap and start in arrival order; a failing
    event discards only its own key's pending events"""
    bad = []
    if not case['queued']:
        return bad
    open_ev = {}
    arrivals = {}
    started = {}
    pending = {}        # key -> tags that arrived and have neither started nor been discarded
    tag_model = {}
    must_start = {}
    for it in log:
        if it[0] in ('ret', 'raised') and it[1] in must_start:
            k = must_start.pop(it[1])
            if it[1] not in started.get(k, []):
                bad.append(('queue.spurious_defer', 'call %s arrived at the idle queue %s but its caller did not process it'
                            % (it[1], k)))
        if it[0] == 'begin':
            k = key_of(case, it[3])
            if open_ev.get(k) is None and not pending.get(k):
                must_start[it[1]] = k
            tag_model[it[1]] = it[3]
            arrivals.setdefault(k, []).append(it[1])
            pending.setdefault(k, []).append(it[1])
        elif it[0] == 'evstart':
            k = key_of(case, it[2])
            if open_ev.get(k) is not None:
                bad.append(('queue.overlap', 'event %s starts while event %s of the same queue is being processed'
                            % (it[1], open_ev[k])))
            open_ev[k] = it[1]
            started.setdefault(k, []).append(it[1])
            if it[1] in pending.get(k, []):
                if pending[k][0] != it[1]:
                    bad.append(('queue.fifo', 'event %s starts before the earlier pending %s' % (it[1], pending[k][0])))
                pending[k].remove(it[1])
            else:
                bad.append(('queue.discarded_runs', 'event %s starts although it was discarded / never arrived' % it[1]))
        elif it[0] == 'evend':
            k = key_of(case, it[2])
            if open_ev.get(k) != it[1]:
                bad.append(('queue.overlap', 'event %s ends while %s is the open event' % (it[1], open_ev.get(k))))
            open_ev[k] = None
            if it[3] != 0:
                # a failing event discards its own key's pending events — and nothing else
                pending[k] = []
        elif it[0] == 'remove':
            for k in pending:
                pending[k] = [t for t in pending[k] if tag_model.get(t) != it[1]]
    # what is still pending at the end was neither processed nor legitimately discarded
    if not any(it[0] == 'hang' for it in log):
        for k, p in pending.items():
            if p:
                bad.append(('queue.lost', 'pending events %s of queue %s were never processed' % (p, k)))
    for k in started:
        it_a = iter(arrivals.get(k, []))
        if not all(t in it_a for t in started[k]):
            bad.append(('queue.fifo', 'start order %s is not a subsequence of arrival order %s' % (started[k], arrivals.get(k))))
    return bad


def in_flight_roots(log, upto):
    """top-level trigger calls begun and not yet returned before log index `upto` -> {tag: model}"""
    fl = {}
    for it in log[:upto]:
        if it[0] == 'begin' and it[1] == it[2]:
            fl[it[1]] = it[3]
        elif it[0] in ('ret', 'raised') and it[1] in fl:
            del fl[it[1]]
    return fl


def mon_cancel(case, log):
    bad = []
    prot = set(case.get('protected', []))
    nfin = 0 if 'finalize_event' in case.get('sparse', []) else 3
    cancelled_at = {}        # root -> (log index, by chain, model, decide tag)
    roots = set(it[1] for it in log if it[0] == 'begin' and it[1] == it[2])
    n = len(log)
    for i, it in enumerate(log):
        if it[0] == 'decide':
            want = sorted(r for r, m in in_flight_roots(log, i).items() if m == it[2] and r != it[3] and r not in prot)
            got = []
            j = i + 1
            while j < n and log[j][0] == 'cancel':
                got.append(log[j][1])
                j += 1
            if sorted(got) != want:
                bad.append(('cancel.targets', 'event %s (model %s, chain %s) cancelled tasks %s; in-flight tasks of '
                            'the model minus own chain minus protected = %s' % (it[1], it[2], it[3], sorted(got), want)))
            for r in got:
                cancelled_at.setdefault(r, (i, it[3], it[2], it[1]))
        elif it[0] == 'cancel' and (i == 0 or log[i - 1][0] not in ('decide', 'cancel')):
            bad.append(('cancel.stray', 'task %s cancelled outside cancel_running_transitions' % it[1]))
    # a transition must announce itself before writing the state
    decided = set()
    for it in log:
        if it[0] == 'decide':
            decided.add(it[1])
        elif it[0] == 'set' and it[1] not in decided:
            bad.append(('cancel.missing', 'event %s writes the state without cancel_running_transitions' % it[1]))
    # behaviour of a cancelled task
    for r, (i0, by, model, dtag) in cancelled_at.items():
        # events of chain r that were being processed when the cancellation was requested
        live = []
        phase_fin = set()
        for it in log[:i0]:
            if it[0] == 'evstart' and it[3] == r:
                live.append(it[1])
            elif it[0] == 'evend' and it[1] in live:
                live.remove(it[1])
            elif it[0] == 'stage' and it[2] == 'finalize_event':
                phase_fin.add(it[1])
        for it in log[i0:]:
            if it[0] == 'cb' and it[1] in live and it[2] in asyncctl.TRANSITION_SLOTS:
                bad.append(('cancelled.runs_on', 'event %s of cancelled task %s starts %s after the cancellation'
                            % (it[1], r, it[2])))
            if it[0] == 'set' and it[4] == r and it[2] == model and it[1] in live:
                bad.append(('cancelled.overwrites', 'event %s of task %s, cancelled by event %s, writes the state of '
                            'model %s' % (it[1], r, dtag, model)))
            if it[0] == 'decide' and it[1] in live:
                bad.append(('cancelled.runs_on', 'event %s of cancelled task %s decides after the cancellation' % (it[1], r)))
        # finalize still runs: every live event that had not reached its finalize stage yet enters it and
        # starts all its finalize callbacks; one that was already in that stage …
        cancels_r = [j for j in range(n) if log[j][0] == 'cancel' and log[j][1] == r]
        for e in live:
            ended = [j for j in range(i0, n) if log[j][0] == 'evend' and log[j][1] == e]
            if not ended:
                continue
            sf = [j for j in range(ended[0]) if log[j][0] == 'stage' and log[j][1] == e and log[j][2] == 'finalize_event']
            if sf and any(sf[0] < j < ended[0] for j in cancels_r):
                okc = set(it[3] for it in log[:ended[0]] if it[0] == 'cbend' and it[1] == e
                          and it[2] == 'finalize_event' and it[4] != 'cancelled')
                if len(okc) < nfin:
                    bad.append(('cancelled.finalize_interrupted', 'event %s of task %s was in its finalize stage when '
                                'the task was cancelled: finalize callbacks %s were interrupted or never started'
                                % (e, r, sorted(set([0, 1, 2]) - okc))))
                continue
            fin = set(it[3] for it in log[i0:ended[0]] if it[0] == 'cb' and it[1] == e and it[2] == 'finalize_event')
            if (len(fin) < nfin) or (nfin == 0 and not any(sf0 > i0 for sf0 in sf)):
                bad.append(('cancelled.no_finalize', 'cancelled event %s ended without starting finalize callbacks %s'
                            % (e, sorted(set([0, 1, 2]) - fin))))
        # … and the trigger returns False (None counts as False, see assumptions)
        if r in live and r not in phase_fin and not case['queued']:
            for it in log[i0:]:
                if it[0] == 'ret' and it[1] == r and it[2]:
                    bad.append(('cancelled.result', 'cancelled trigger %s returned %r' % (r, it[2])))
                if it[0] == 'raised' and it[1] == r and it[2] == 'Cancelled':
                    bad.append(('cancelled.result', 'cancelled trigger %s raised CancelledError' % r))
    _ = roots
    return bad


def mon_cleanup(case, run):
    bad = []
    log = run.log
    legal = ['A', 'B', 'C'] + (['B_x', 'B_y'] if case['hsm'] else [])
    if case['hsm']:
        legal.remove('B')
    for i, it in enumerate(log):
        if it[0] == 'quiet':
            fl = in_flight_roots(log, i)
            for mi, tasks in it[2].items():
                for tag, done in tasks:
                    if done or tag not in fl:
                        bad.append(('cleanup.finished_task', 'async_tasks[model %s] holds finished task %s at quiescence %s'
                                    % (mi, tag, it[1])))
            # the registry must also know every in-flight top-level trigger (it is what cancellation iterates)
            have = set(tag for tasks in it[2].values() for tag, _d in tasks)
            for tag in fl:
                if tag not in have:
                    bad.append(('cleanup.unregistered', 'in-flight trigger %s missing from async_tasks at quiescence %s' % (tag, it[1])))
    if run.hang is None:
        if run.final_tasks:
            bad.append(('cleanup.leftover', 'async_tasks not empty after all triggers finished: %s' % run.final_tasks))
        late = set(case.get('late', []))
        added = set(it[1] for it in log if it[0] == 'add')
        for mi, st in enumerate(run.final_states):
            if mi in late and mi not in added:
                continue        # never attached to the machine (the attaching callback did not run)
            if st not in legal:
                bad.append(('state.unregistered', 'model %s ends in %r' % (mi, st)))
        names = getattr(run, 'final_names', None)
        if names is not None and names != [['A', 'B', 'B_x', 'B_y', 'C'], ['A', 'B', 'x', 'y', 'C']]:
            bad.append(('state.names_corrupted', 'after all triggers finished the machine lists its states as %r and the '
                        'state objects answer to %r' % (names[0], names[1])))
    return bad


def overlapping_models(log, tag):
    """models whose events were being processed while event `tag` was"""
    inside = False
    open_m = {}
    seen = set()
    for it in log:
        if it[0] == 'evstart':
            if it[1] == tag:
                inside = True
                seen |= set(open_m.values())
            else:
                open_m[it[1]] = it[2]
                if inside:
                    seen.add(it[2])
        elif it[0] == 'evend':
            if it[1] == tag:
                inside = False
            open_m.pop(it[1], None)
    return seen


def mon_unexpected(case, log, labs):
    """the programs never provoke library exceptions: an event that fails although none of its callbacks / nested calls
    raised (`labs.spurious`), or a trigger call raising anything but the scripted UserExc / the CancelledError of its
    cancelled task, is a failure of the machine"""
    bad = []
    model_of = {it[1]: it[3] for it in log if it[0] == 'begin'}
    tags = list(getattr(labs, 'spurious', []))
    kinds = {}
    for it in log:
        if it[0] == 'raised' and it[2] not in ('UserExc', 'Cancelled'):
            kinds[it[1]] = it[2]
            if it[1] not in tags:
                tags.append(it[1])
    for t in tags:
        kind = kinds.get(t, 'an exception (handled by on_exception / replaced later)')
        others = overlapping_models(log, t) - {model_of.get(t)}
        if case['hsm'] and others and kinds.get(t, 'ValueError') == 'ValueError':
            bad.append(('hsm.concurrent_scope', 'event %s (model %s) failed with %s while an event of model(s) %s was being '
                        'processed on the same HierarchicalAsyncMachine' % (t, model_of.get(t), kind, sorted(others))))
        elif case['hsm'] and kinds.get(t, 'ValueError') == 'ValueError':
            # two (protected / not yet cancelled) transitions of ONE model of a hierarchical machine: the later one
            # resolves its exit/enter sets against a state the earlier one has already changed and raises ValueError —
            # concurrent transitions on one model are what cancellation exists to prevent; not a clause of the
            # statement, not judged (inclusion skipped, counted)
            continue
        else:
            bad.append(('call.unexpected_exception', 'event %s failed with %s' % (t, kind)))
    return bad


def hsm_value_error(case, log, labs):
    return bool(case['hsm']) and (bool(getattr(labs, 'spurious', [])) or
                                  any(it[0] == 'raised' and it[2] == 'ValueError' for it in log))


def mon_outlives(case, log):
    """the processing of an event includes its callbacks: when `_trigger` is left (evend) every callback the event started
    has ended — whatever awaitable the callback handed back.  Excused: the siblings of a callback that raised or was
    cancelled (gather lets the stage end on the first failure) and events of a cancelled task."""
    bad = []
    running = {}          # tag -> {(slot, idx)}
    broken = set()        # (tag, slot) stages with a raising / cancelled callback
    chain_of = {}
    cancelled = set()
    for it in log:
        if it[0] == 'evstart':
            chain_of[it[1]] = it[3]
        elif it[0] == 'cancel':
            cancelled.add(it[1])
        elif it[0] == 'cb':
            running.setdefault(it[1], set()).add((it[2], it[3]))
        elif it[0] == 'cbend':
            running.get(it[1], set()).discard((it[2], it[3]))
            if it[4] != 'ok':
                broken.add((it[1], it[2]))
        elif it[0] == 'evend':
            left = [x for x in sorted(running.get(it[1], ())) if (it[1], x[0]) not in broken]
            if left and chain_of.get(it[1]) not in cancelled:
                bad.append(('event.callback_outlives', 'event %s ended (finalized, queue advanced) while its callbacks %s were '
                            'still pending' % (it[1], left)))
    return bad


def monitors(case, run):
    if run.hang is not None:
        return [('hang', run.hang)]
    return mon_queue(case, run.log) + mon_cancel(case, run.log) + mon_cleanup(case, run) + mon_outlives(case, run.log) + mon_unexpected(case, run.log, getattr(run, 'labels', None))
